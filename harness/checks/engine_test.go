package checks

import (
	"bytes"
	"encoding/hex"
	"encoding/json"
	"fmt"
	"os"
	"regexp"
	"sort"
	"strings"
	"sync"
	"sync/atomic"
	"time"

	"verifharness/evidence"
	"verifharness/fakecluster"
	"verifharness/rclient"
	"verifharness/refmodel"
)

// Bin is a byte string that survives JSON: printable ASCII is written as "s:<text>", anything else as "x:<hex>".
type Bin []byte

func (b Bin) MarshalJSON() ([]byte, error) {
	printable := true
	for _, c := range b {
		if c < 0x20 || c > 0x7e {
			printable = false
			break
		}
	}
	if printable {
		return json.Marshal("s:" + string(b))
	}
	return json.Marshal("x:" + hex.EncodeToString(b))
}

func (b *Bin) UnmarshalJSON(d []byte) error {
	var s string
	if err := json.Unmarshal(d, &s); err != nil {
		return err
	}
	switch {
	case strings.HasPrefix(s, "s:"):
		*b = Bin(s[2:])
	case strings.HasPrefix(s, "x:"):
		v, err := hex.DecodeString(s[2:])
		if err != nil {
			return err
		}
		*b = v
	default:
		return fmt.Errorf("bad Bin %q", s)
	}
	return nil
}

// Req is one request of a generated client pipeline: the command name as sent and its arguments.
type Req struct {
	Name Bin   `json:"name"`
	Args []Bin `json:"args"`
	// Raw, when set, is sent instead of the canonical encoding (C12).
	Raw Bin `json:"raw,omitempty"`
}

func (r *Req) lname() string { return refmodel.ASCIILower(string(r.Name)) }

// Encode returns the RESP encoding of the request.
func (r *Req) Encode() []byte {
	if r.Raw != nil {
		return r.Raw
	}
	all := make([][]byte, 0, len(r.Args)+1)
	all = append(all, r.Name)
	for _, a := range r.Args {
		all = append(all, a)
	}
	return refmodel.EncodeCmd(all...)
}

// Plan scripts what the fake node does with the fragment that contains Key.
type Plan struct {
	Key     Bin    `json:"key"`
	Reply   Bin    `json:"reply,omitempty"`    // reply bytes instead of the echo reply
	Hold    bool   `json:"hold,omitempty"`     // keep the reply behind a gate until the schedule releases it
	Fault   string `json:"fault,omitempty"`    // close | rst | partial | stall
	Partial int    `json:"partial,omitempty"`  // bytes written before closing (fault partial)
	DelayMs int    `json:"delay_ms,omitempty"` // delay before replying
	// BulkLen > 0: the reply is a bulk string of this length made by repeating BulkSeed (keeps case files small)
	SplitAt  int `json:"split_at,omitempty"` // the reply is written in two pieces, the first this long
	BulkLen  int `json:"bulk_len,omitempty"`
	BulkSeed Bin `json:"bulk_seed,omitempty"`
}

// Phase is one step of a client that lets replies pile up: it reads Read bytes of what is waiting for it, then
// sends its next Reqs requests.
type Phase struct {
	Read int `json:"read"`
	Reqs int `json:"reqs"`
}

// Value scripts the stored value of a key for MGET (Null = absent).
type Value struct {
	Key   Bin  `json:"key"`
	Val   Bin  `json:"val,omitempty"`
	Null  bool `json:"null,omitempty"`
	Store bool `json:"store,omitempty"` // the key has store semantics: GET returns what an earlier SET wrote (null before)
}

// ClientSpec is one client connection: its pipeline and how the bytes are cut into writes.
type ClientSpec struct {
	Reqs    []Req  `json:"reqs"`
	Cuts    []int  `json:"cuts,omitempty"`     // write sizes; the remainder is written last
	PauseUs int    `json:"pause_us,omitempty"` // pause between writes
	Src     string `json:"src,omitempty"`      // source IP
	// Phases (with RcvBuf, the client's receive buffer): see runPhased
	Phases []Phase `json:"phases,omitempty"`
	RcvBuf int     `json:"rcvbuf,omitempty"`
}

// PipeSpec is a complete, serialisable description of one pipeline case.
type PipeSpec struct {
	Clients  []ClientSpec `json:"clients"`
	Plans    []Plan       `json:"plans,omitempty"`
	Values   []Value      `json:"values,omitempty"`
	Schedule []int        `json:"schedule,omitempty"` // release order of held replies (index modulo the number currently held)
	GapUs    int          `json:"gap_us,omitempty"`   // pause after each release
	HoldMs   int          `json:"hold_ms,omitempty"`  // wait this long before the first release (lets requests pile up behind held ones)
	// Abandoned: before the clients start, one throw-away connection per entry writes these bytes (an
	// incomplete request) and disconnects: whatever it leaves behind must not leak into anybody else's stream
	Abandoned []Bin `json:"abandoned,omitempty"`

	// cluster-side redirection state (C13): the proxy's view is the fixture topology, the truth is this
	Moved        []SlotNode `json:"moved,omitempty"`             // slot really owned by Node: everybody else answers -MOVED
	Migrating    []Mig      `json:"migrating,omitempty"`         // slot being migrated from Src (the owner) to Dst
	Present      []Bin      `json:"present,omitempty"`           // keys of migrating slots that are still at the source
	RedirDelayMs int        `json:"redirect_delay_ms,omitempty"` // redirection replies are sent this late (they can arrive after the request was completed otherwise)
	RedirStagger int        `json:"redirect_stagger_ms,omitempty"` // the k-th redirection reply of the case is sent k times this much later still
	DeadAddr     string     `json:"-"`
	nonce        string
}

// SlotNode says which node really owns a slot.
type SlotNode struct {
	Slot int `json:"slot"`
	Node int `json:"node"` // -1: an address nobody listens on / the proxy does not know
}

// Mig is a slot under migration.
type Mig struct {
	Slot int `json:"slot"`
	Src  int `json:"src"`
	Dst  int `json:"dst"`
}

// redirectLayer wraps a handler with the redirection rules of the cluster specification.
func redirectLayer(f *Fixture, spec *PipeSpec, next fakecluster.Handler) fakecluster.Handler {
	if len(spec.Moved) == 0 && len(spec.Migrating) == 0 {
		return next
	}
	moved := map[int]int{}
	for _, m := range spec.Moved {
		moved[m.Slot] = m.Node
	}
	mig := map[int]Mig{}
	for _, m := range spec.Migrating {
		mig[m.Slot] = m
	}
	present := map[string]bool{}
	for _, k := range spec.Present {
		present[string(k)] = true
	}
	addr := func(n int) string {
		if n < 0 || n >= len(f.Cluster.Nodes) {
			return spec.DeadAddr
		}
		return f.Cluster.Nodes[n].Addr
	}
	base := time.Duration(spec.RedirDelayMs) * time.Millisecond
	var nredir int64
	return func(req *fakecluster.Request) fakecluster.Action {
		keys := keysOf(req.Name, req.Args)
		if len(keys) == 0 {
			return next(req)
		}
		delay := base
		if spec.RedirStagger > 0 {
			delay += time.Duration(atomic.LoadInt64(&nredir)) * time.Duration(spec.RedirStagger) * time.Millisecond
		}
		bump := func(a fakecluster.Action) fakecluster.Action { atomic.AddInt64(&nredir, 1); return a }
		_ = bump
		slot := refmodel.KeySlot(keys[0])
		if m, ok := mig[slot]; ok {
			switch {
			case req.Node == m.Src:
				if present[string(keys[0])] {
					return next(req)
				}
				return fakecluster.Action{Reply: []byte(fmt.Sprintf("-ASK %d %s\r\n", slot, addr(m.Dst))), Delay: delay}
			case req.Node == m.Dst && req.Asking:
				return next(req)
			default:
				return fakecluster.Action{Reply: []byte(fmt.Sprintf("-MOVED %d %s\r\n", slot, addr(m.Src))), Delay: delay}
			}
		}
		if owner, ok := moved[slot]; ok && req.Node != owner {
			return bump(fakecluster.Action{Reply: []byte(fmt.Sprintf("-MOVED %d %s\r\n", slot, addr(owner))), Delay: delay})
		}
		return next(req)
	}
}

// ClientResult is what one client observed.
type ClientResult struct {
	Replies  [][]byte
	Times    []time.Time
	Pending  []byte
	EOF      bool
	BadResp  error
	WriteErr error
	Sent     time.Time
}

// PipeResult is the outcome of running a PipeSpec.
type PipeResult struct {
	Clients []ClientResult
	Log     []*fakecluster.Request
	Held    int
	nonce   string
}

type heldGate struct {
	seq      int64
	ch       chan struct{}
	released bool
}

type gateSet struct {
	mu      sync.Mutex
	held    []*heldGate
	openAll bool
}

func (g *gateSet) add(seq int64) <-chan struct{} {
	g.mu.Lock()
	defer g.mu.Unlock()
	ch := make(chan struct{})
	if g.openAll {
		close(ch)
		return ch
	}
	g.held = append(g.held, &heldGate{seq: seq, ch: ch})
	return ch
}

func (g *gateSet) releaseNth(n int) bool {
	g.mu.Lock()
	defer g.mu.Unlock()
	var un []*heldGate
	for _, h := range g.held {
		if !h.released {
			un = append(un, h)
		}
	}
	if len(un) == 0 {
		return false
	}
	sort.Slice(un, func(i, j int) bool { return un[i].seq < un[j].seq })
	if n < 0 {
		n = -n
	}
	h := un[n%len(un)]
	h.released = true
	close(h.ch)
	return true
}

func (g *gateSet) releaseAll() {
	g.mu.Lock()
	defer g.mu.Unlock()
	g.openAll = true
	for _, h := range g.held {
		if !h.released {
			h.released = true
			close(h.ch)
		}
	}
}

func (g *gateSet) counts() (total, released int) {
	g.mu.Lock()
	defer g.mu.Unlock()
	for _, h := range g.held {
		if h.released {
			released++
		}
	}
	return len(g.held), released
}

// planIndex resolves plans and values by key.
type planIndex struct {
	plans  map[string]*Plan
	values map[string]*Value
	mu     sync.Mutex
	stored map[string][]byte
}

func indexPlans(spec *PipeSpec) *planIndex {
	pi := &planIndex{plans: map[string]*Plan{}, values: map[string]*Value{}, stored: map[string][]byte{}}
	for i := range spec.Plans {
		if p := spec.Plans[i]; p.BulkLen > 0 && p.Reply == nil {
			seed := p.BulkSeed
			if len(seed) == 0 {
				seed = Bin("x")
			}
			p.Reply = refmodel.Bulk(bytes.Repeat(seed, p.BulkLen/len(seed)+1)[:p.BulkLen])
			pi.plans[string(p.Key)] = &p
			continue
		}
		pi.plans[string(spec.Plans[i].Key)] = &spec.Plans[i]
	}
	for i := range spec.Values {
		pi.values[string(spec.Values[i].Key)] = &spec.Values[i]
	}
	return pi
}

// fragPlan returns the plan that applies to a fragment with these keys (the first key that has one).
func (pi *planIndex) fragPlan(keys [][]byte) *Plan {
	for _, k := range keys {
		if p := pi.plans[string(k)]; p != nil {
			return p
		}
	}
	return nil
}

// keysOf returns the key arguments of a (fragment of a) command as the fake node sees it.
func keysOf(name string, args [][]byte) [][]byte {
	switch name {
	case "mset":
		var ks [][]byte
		for i := 1; i < len(args); i += 2 {
			ks = append(ks, args[i])
		}
		return ks
	case "mget", "del":
		return args[1:]
	case "eval", "evalsha":
		if len(args) > 3 {
			return args[3:4]
		}
		return nil
	}
	if len(args) > 1 {
		return args[1:2]
	}
	return nil
}

// storeKey returns the Value entry if this is a SET or GET on a key with store semantics.
func (pi *planIndex) storeKey(name string, keys [][]byte) *Value {
	if (name != "set" && name != "get") || len(keys) == 0 {
		return nil
	}
	if v := pi.values[string(keys[0])]; v != nil && v.Store {
		return v
	}
	return nil
}

// naturalReply is what the fake node answers to a fragment when no plan overrides it.
// For keys with store semantics it is the reply of a store in which every SET of the pipeline has been applied
// in client order (the generators place one SET before one GET).
func (pi *planIndex) naturalReply(name string, args [][]byte) []byte {
	if v := pi.storeKey(name, keysOf(name, args)); v != nil {
		if name == "set" {
			return []byte("+OK\r\n")
		}
		return refmodel.Bulk(v.Val)
	}
	switch name {
	case "mget":
		items := make([][]byte, 0, len(args)-1)
		for _, k := range args[1:] {
			if v := pi.values[string(k)]; v != nil {
				if v.Null {
					items = append(items, refmodel.NullBulk)
				} else {
					items = append(items, refmodel.Bulk(v.Val))
				}
			} else {
				items = append(items, refmodel.Bulk(fakecluster.EchoValue("mget", string(k))))
			}
		}
		return refmodel.Array(items...)
	case "del":
		return refmodel.Int(int64(len(args) - 1))
	case "mset":
		return []byte("+OK\r\n")
	}
	key := ""
	if ks := keysOf(name, args); len(ks) > 0 {
		key = string(ks[0])
	}
	return refmodel.Bulk(fakecluster.EchoValue(name, key))
}

func (pi *planIndex) handler(gates *gateSet) fakecluster.Handler {
	return func(req *fakecluster.Request) fakecluster.Action {
		keys := keysOf(req.Name, req.Args)
		p := pi.fragPlan(keys)
		a := fakecluster.Action{}
		if v := pi.storeKey(req.Name, keys); v != nil {
			// store semantics, decided at arrival time
			pi.mu.Lock()
			if req.Name == "set" && len(req.Args) > 2 {
				pi.stored[string(keys[0])] = append([]byte(nil), req.Args[2]...)
				a.Reply = []byte("+OK\r\n")
			} else if cur, ok := pi.stored[string(keys[0])]; ok {
				a.Reply = refmodel.Bulk(cur)
			} else {
				a.Reply = refmodel.NullBulk
			}
			pi.mu.Unlock()
		} else if p != nil && p.Reply != nil {
			a.Reply = p.Reply
		} else {
			a.Reply = pi.naturalReply(req.Name, req.Args)
		}
		if p == nil {
			return a
		}
		if p.DelayMs > 0 {
			a.Delay = time.Duration(p.DelayMs) * time.Millisecond
		}
		if p.SplitAt > 0 {
			a.SplitAt = p.SplitAt
		}
		if p.Hold {
			a.Gate = gates.add(req.Seq)
		}
		switch p.Fault {
		case "close":
			a.CloseBefore = true
		case "rst":
			a.CloseBefore, a.RST = true, true
		case "partial":
			a.Partial = p.Partial
			if a.Partial <= 0 {
				a.Partial = 1
			}
			if a.Partial >= len(a.Reply) {
				a.Partial = len(a.Reply) - 1
			}
		case "stall":
			a.Gate = make(chan struct{}) // never released; the connection's later replies wait behind it
		}
		return a
	}
}

// runPipes executes a PipeSpec against the fixture: installs the scripted backend behaviour, lets every
// client write its bytes as specified, releases held replies in the drawn order, and collects what each
// client received until want[i] replies arrived (or EOF / malformed stream / deadline).
func runPipes(f *Fixture, spec *PipeSpec, want []int, deadline time.Duration) *PipeResult {
	return runPipesQuiet(f, spec, want, deadline, 0, nil)
}

// runPipesQuiet is runPipes followed by a quiet period during which stray bytes would show up; clients whose
// reference sequence ends with a closing reply (QUIT) are given time to see the end of the connection.
func runPipesQuiet(f *Fixture, spec *PipeSpec, want []int, deadline, quiet time.Duration, exps [][]Expect) *PipeResult {
	pi := indexPlans(spec)
	gates := &gateSet{}
	f.Cluster.ResetLog()
	f.Cluster.SetHandler(redirectLayer(f, spec, pi.handler(gates)))
	defer f.Cluster.SetHandler(nil)

	abandon(f, spec.Abandoned)
	res := &PipeResult{Clients: make([]ClientResult, len(spec.Clients)), nonce: spec.nonce}
	clients := make([]*rclient.Client, len(spec.Clients))
	for i := range spec.Clients {
		c, err := rclient.Dial(f.Proxy.Addr(), spec.Clients[i].Src)
		if err != nil {
			res.Clients[i].WriteErr = err
			continue
		}
		clients[i] = c
	}
	defer func() {
		gates.releaseAll()
		for _, c := range clients {
			if c != nil {
				c.Close()
			}
		}
	}()

	var wg sync.WaitGroup
	for i := range spec.Clients {
		if clients[i] == nil {
			continue
		}
		wg.Add(1)
		go func(i int) {
			defer wg.Done()
			cs := &spec.Clients[i]
			var stream []byte
			for j := range cs.Reqs {
				stream = append(stream, cs.Reqs[j].Encode()...)
			}
			err := clients[i].WriteChunks(stream, cs.Cuts, time.Duration(cs.PauseUs)*time.Microsecond)
			res.Clients[i].WriteErr = err
			res.Clients[i].Sent = time.Now()
		}(i)
	}

	// how many held replies to expect
	expectHeld := 0
	for i := range spec.Plans {
		if spec.Plans[i].Hold {
			expectHeld++
		}
	}
	gap := time.Duration(spec.GapUs) * time.Microsecond
	if expectHeld > 0 && spec.HoldMs > 0 {
		time.Sleep(time.Duration(spec.HoldMs) * time.Millisecond)
	}
	if expectHeld > 0 {
		idle := time.Now()
		si := 0
		for si < len(spec.Schedule) {
			if gates.releaseNth(spec.Schedule[si]) {
				si++
				idle = time.Now()
				if gap > 0 {
					time.Sleep(gap)
				}
				continue
			}
			total, rel := gates.counts()
			if total >= expectHeld && rel >= total {
				break
			}
			if time.Since(idle) > 400*time.Millisecond {
				break
			}
			time.Sleep(200 * time.Microsecond)
		}
	}
	wg.Wait()
	gates.releaseAll()
	res.Held, _ = gates.counts()

	waitClients(f, clients, want, deadline)
	for i, c := range clients {
		if c == nil || exps == nil || i >= len(exps) || len(exps[i]) == 0 {
			continue
		}
		if exps[i][len(exps[i])-1].Closes && len(c.Snapshot().Replies) >= want[i] {
			c.WaitEOF(2 * time.Second)
		}
	}
	if quiet > 0 {
		time.Sleep(quiet)
	}
	return res.collect(f, clients)
}

// abandon plays the throw-away connections of a PipeSpec.
func abandon(f *Fixture, list []Bin) {
	for i, b := range list {
		c, err := rclient.Dial(f.Proxy.Addr(), "")
		if err != nil {
			continue
		}
		c.Write(b)
		time.Sleep(time.Millisecond) // let the proxy read (and keep) the fragment
		if i%2 == 0 {
			c.Close()
		} else {
			c.CloseRST()
		}
	}
	if len(list) > 0 {
		time.Sleep(2 * time.Millisecond)
	}
}

// waitClients waits until client i has want[i] replies (or its connection ended). When the deadline passes
// with replies missing, a witness round trip decides: if the proxy answers a fresh connection promptly the
// replies are really missing; if the witness is slow too the machine is overloaded and the wait is extended.
func waitClients(f *Fixture, clients []*rclient.Client, want []int, deadline time.Duration) {
	startHarnessLagWatch()
	waitUntil := func(d time.Duration) bool {
		end := time.Now().Add(d)
		all := true
		for i, c := range clients {
			if c == nil {
				continue
			}
			left := time.Until(end)
			if left < 5*time.Millisecond {
				left = 5 * time.Millisecond
			}
			w := 0
			if i < len(want) {
				w = want[i]
			}
			if !c.WaitReplies(w, left) {
				st := c.Snapshot()
				if !st.EOF && st.BadResp == nil {
					all = false
				}
			}
		}
		return all
	}
	if waitUntil(deadline) {
		return
	}
	for round := 0; round < 3; round++ {
		t0 := time.Now()
		err := f.Responsive(10 * time.Second)
		if err == nil && time.Since(t0) < 500*time.Millisecond && !harnessStarvedWithin(deadline+2*time.Second) {
			// the proxy is responsive: give the missing replies one short grace period
			waitUntil(1 * time.Second)
			return
		}
		if !f.Proxy.Alive() {
			return
		}
		evidenceSlow++
		if waitUntil(15 * time.Second) {
			return
		}
	}
}

var evidenceSlow int

// harnessLag watches how late this process' own timers fire: the fake nodes live in this process, so when it is
// starved they answer (or close) late and a missing reply says nothing about the proxy.
var harnessLag struct {
	once      sync.Once
	mu        sync.Mutex
	lastSpike time.Time
}

func startHarnessLagWatch() {
	harnessLag.once.Do(func() {
		go func() {
			for {
				t0 := time.Now()
				time.Sleep(5 * time.Millisecond)
				if time.Since(t0) > 250*time.Millisecond {
					harnessLag.mu.Lock()
					harnessLag.lastSpike = time.Now()
					harnessLag.mu.Unlock()
				}
			}
		}()
	})
}

func harnessStarvedWithin(d time.Duration) bool {
	harnessLag.mu.Lock()
	defer harnessLag.mu.Unlock()
	return !harnessLag.lastSpike.IsZero() && time.Since(harnessLag.lastSpike) < d
}

func (res *PipeResult) collect(f *Fixture, clients []*rclient.Client) *PipeResult {
	for i, c := range clients {
		if c == nil {
			continue
		}
		st := c.Snapshot()
		cr := &res.Clients[i]
		cr.Replies = nil
		cr.Times = nil
		for _, r := range st.Replies {
			cr.Replies = append(cr.Replies, r.Raw)
			cr.Times = append(cr.Times, r.Time)
		}
		cr.Pending, cr.EOF, cr.BadResp = st.Pending, st.EOF, st.BadResp
	}
	res.Log = res.Log[:0]
	for _, r := range f.Cluster.Log() {
		if k := r.Key(1); strings.Contains(k, "}witness-") || strings.HasSuffix(k, "}ready") {
			continue // the harness' own probes
		}
		if foreignNonce(r, res.nonce) {
			evidence.For(os.Getenv("VERIF_PROP")).Add("stale_backend_requests_of_earlier_cases_ignored", 1)
			continue
		}
		res.Log = append(res.Log, r)
	}
	return res
}

// ---- reference expectations ---------------------------------------------------------------------

// Expect describes the acceptable replies to one request.
type Expect struct {
	Exact    []byte // the reply must be exactly these bytes
	AnyError bool   // the reply must be an error line (proxy-generated)
	Closes   bool   // the connection is closed after this reply (QUIT)
	Why      string
}

func (e Expect) matches(got []byte) bool {
	if e.AnyError {
		return isErrorReply(got)
	}
	return bytes.Equal(e.Exact, got)
}

func (e Expect) String() string {
	if e.AnyError {
		return "an error reply (" + e.Why + ")"
	}
	return q(e.Exact)
}

func isErrorReply(b []byte) bool {
	if len(b) < 3 || b[0] != '-' || b[len(b)-2] != '\r' || b[len(b)-1] != '\n' {
		return false
	}
	return bytes.IndexByte(b[:len(b)-2], '\r') < 0 && bytes.IndexByte(b[:len(b)-2], '\n') < 0
}

// refCtx is the configuration the reference needs.
type refCtx struct {
	Password string
	MaxLen   int // 0 = default 6 MiB
	Owners   []fakecluster.SlotOwner
}

func (rc *refCtx) limit() int {
	if rc.MaxLen < 1 {
		return 6 * 1024 * 1024
	}
	return rc.MaxLen
}

// fragment of the reference split
type refFrag struct {
	Slot int
	Keys [][]byte // keys in request order (MSET: keys only)
	Args [][]byte // full args the node should see after the command name
}

// refSplit groups the key arguments of a multi-key request by reference slot, preserving order.
func refSplit(name string, args []Bin) []refFrag {
	var order []int
	m := map[int]*refFrag{}
	step := 1
	if name == "mset" {
		step = 2
	}
	for i := 0; i+step-1 < len(args); i += step {
		k := args[i]
		s := refmodel.KeySlot(k)
		fr := m[s]
		if fr == nil {
			fr = &refFrag{Slot: s}
			m[s] = fr
			order = append(order, s)
		}
		fr.Keys = append(fr.Keys, k)
		fr.Args = append(fr.Args, k)
		if step == 2 {
			fr.Args = append(fr.Args, args[i+1])
		}
	}
	out := make([]refFrag, 0, len(order))
	for _, s := range order {
		out = append(out, *m[s])
	}
	return out
}

// expectFor computes the reference reply of one request given the scripted backend behaviour.
// Requests whose fragments carry a fault (close/partial/stall) are not handled here.
func expectFor(r *Req, pi *planIndex, rc *refCtx) Expect {
	name := r.lname()
	size := len(r.Encode())
	vs := docs.Classify(string(r.Name), len(r.Args), size, rc.limit())
	if len(vs) > 0 {
		return Expect{AnyError: true, Why: fmt.Sprintf("rejected: %v", vs)}
	}
	switch name {
	case "ping":
		return Expect{Exact: []byte("+PONG\r\n")}
	case "quit":
		return Expect{Exact: []byte("+OK\r\n"), Closes: true}
	case "auth":
		switch {
		case rc.Password == "":
			return Expect{AnyError: true, Why: "AUTH without a configured password"}
		case string(r.Args[0]) == rc.Password:
			return Expect{Exact: []byte("+OK\r\n")}
		default:
			return Expect{AnyError: true, Why: "wrong password"}
		}
	}
	full := func(args []Bin) [][]byte {
		out := [][]byte{[]byte(name)}
		for _, a := range args {
			out = append(out, a)
		}
		return out
	}
	if !refmodel.MultiKey(name) {
		args := full(r.Args)
		keys := keysOf(name, args)
		if len(keys) > 0 && rc.Owners != nil && rc.Owners[refmodel.KeySlot(keys[0])].Master < 0 {
			return Expect{AnyError: true, Why: "slot not served"}
		}
		rep := pi.naturalReply(name, args)
		if p := pi.fragPlan(keys); p != nil && p.Reply != nil {
			rep = p.Reply
		}
		if len(rep) > rc.limit() {
			return Expect{AnyError: true, Why: "reply larger than the limit"}
		}
		return Expect{Exact: rep}
	}
	// split request
	frags := refSplit(name, r.Args)
	type fr struct {
		rep []byte
		err bool
	}
	reps := map[int]fr{}
	for _, f := range frags {
		if rc.Owners != nil && rc.Owners[f.Slot].Master < 0 {
			return Expect{AnyError: true, Why: "slot not served"}
		}
		args := [][]byte{[]byte(name)}
		args = append(args, f.Args...)
		rep := pi.naturalReply(name, args)
		if p := pi.fragPlan(f.Keys); p != nil && p.Reply != nil {
			rep = p.Reply
		}
		if len(rep) > rc.limit() {
			return Expect{AnyError: true, Why: "fragment reply larger than the limit"}
		}
		reps[f.Slot] = fr{rep: rep, err: len(rep) > 0 && rep[0] == '-'}
	}
	for _, f := range frags {
		if reps[f.Slot].err {
			return Expect{AnyError: true, Why: "a fragment was answered with an error"}
		}
	}
	switch name {
	case "mget":
		// element i = what the owning node returned for key i
		per := map[int][][]byte{}
		for _, f := range frags {
			items, ok := splitArray(reps[f.Slot].rep)
			if !ok || len(items) != len(f.Keys) {
				return Expect{AnyError: true, Why: "fragment reply is not an array of the right size"}
			}
			per[f.Slot] = items
		}
		var out [][]byte
		for _, k := range r.Args {
			s := refmodel.KeySlot(k)
			var fkeys [][]byte
			for _, f := range frags {
				if f.Slot == s {
					fkeys = f.Keys
				}
			}
			// first occurrence of the key in the fragment (duplicates carry the same value)
			for i, fk := range fkeys {
				if bytes.Equal(fk, k) {
					out = append(out, per[s][i])
					break
				}
			}
		}
		rep := refmodel.Array(out...)
		if len(rep) > rc.limit() {
			return Expect{AnyError: true, Why: "merged reply larger than the limit"}
		}
		return Expect{Exact: rep}
	case "del":
		var sum int64
		for _, f := range frags {
			var n int64
			fmt.Sscanf(string(reps[f.Slot].rep), ":%d\r\n", &n)
			sum += n
		}
		return Expect{Exact: refmodel.Int(sum)}
	default: // mset
		for _, f := range frags {
			if !bytes.Equal(reps[f.Slot].rep, []byte("+OK\r\n")) {
				return Expect{AnyError: true, Why: "a fragment was not answered with OK"}
			}
		}
		return Expect{Exact: []byte("+OK\r\n")}
	}
}

// splitArray splits an encoded RESP array into its encoded top-level elements.
func splitArray(b []byte) ([][]byte, bool) {
	if len(b) < 4 || b[0] != '*' {
		return nil, false
	}
	i := bytes.IndexByte(b, '\n')
	if i < 0 {
		return nil, false
	}
	var n int
	if _, err := fmt.Sscanf(string(b[1:i-1]), "%d", &n); err != nil || n < 0 {
		return nil, false
	}
	pos := i + 1
	var out [][]byte
	for k := 0; k < n; k++ {
		m, err := refmodel.ScanReply(b[pos:])
		if err != nil {
			return nil, false
		}
		out = append(out, b[pos:pos+m])
		pos += m
	}
	return out, pos == len(b)
}

// expectedFor returns the reference replies of a client's pipeline, truncated after a QUIT.
func expectedFor(cs *ClientSpec, pi *planIndex, rc *refCtx) []Expect {
	var out []Expect
	for i := range cs.Reqs {
		e := expectFor(&cs.Reqs[i], pi, rc)
		out = append(out, e)
		if e.Closes {
			break
		}
	}
	return out
}

// compareReplies checks one client's received replies against the reference sequence.
func compareReplies(prop string, ci int, cr *ClientResult, exp []Expect, ds []Discrepancy) []Discrepancy {
	if cr.WriteErr != nil && len(cr.Replies) < len(exp) {
		// the proxy closed the connection while we were still writing
		ds = append(ds, disc(prop+"/closed-while-writing", "client %d: write failed (%v) after %d of %d replies", ci, cr.WriteErr, len(cr.Replies), len(exp)))
		return ds
	}
	if cr.BadResp != nil {
		ds = append(ds, disc(prop+"/malformed-reply-stream", "client %d: reply stream is not well-formed RESP after %d replies: %v; pending %s", ci, len(cr.Replies), cr.BadResp, q(cr.Pending)))
		return ds
	}
	n := len(cr.Replies)
	if n > len(exp) {
		n = len(exp)
	}
	for i := 0; i < n; i++ {
		if !exp[i].matches(cr.Replies[i]) {
			ds = append(ds, disc(prop+"/wrong-reply", "client %d: reply %d of %d is %s, reference says %s", ci, i+1, len(exp), q(cr.Replies[i]), exp[i]))
			return ds
		}
	}
	if len(cr.Replies) < len(exp) {
		what := "still open"
		if cr.EOF {
			what = "closed by the proxy"
		}
		ds = append(ds, disc(prop+"/missing-replies", "client %d: only %d of %d replies arrived (connection %s); next expected %s; pending bytes %s", ci, len(cr.Replies), len(exp), what, exp[len(cr.Replies)], q(cr.Pending)))
		return ds
	}
	if len(cr.Replies) > len(exp) {
		ds = append(ds, disc(prop+"/extra-replies", "client %d: %d replies for %d requests; extra: %s", ci, len(cr.Replies), len(exp), q(cr.Replies[len(exp)])))
		return ds
	}
	if len(cr.Pending) > 0 {
		ds = append(ds, disc(prop+"/stray-bytes", "client %d: stray bytes after the last reply: %s", ci, q(cr.Pending)))
	}
	return ds
}

// runSlowReader runs a one-client PipeSpec with a client that does not read until the backends have written
// all their replies (small receive buffer), so the proxy has to buffer and resume partial writes.
func runSlowReader(f *Fixture, spec *PipeSpec, want int) *PipeResult {
	pi := indexPlans(spec)
	gates := &gateSet{}
	held := 0
	for i := range spec.Plans {
		if spec.Plans[i].Hold {
			held++
		}
	}
	if held == 0 {
		gates.releaseAll()
	}
	defer gates.releaseAll()
	f.Cluster.ResetLog()
	f.Cluster.SetHandler(pi.handler(gates))
	defer f.Cluster.SetHandler(nil)
	abandon(f, spec.Abandoned)
	res := &PipeResult{Clients: make([]ClientResult, 1)}
	c, err := rclient.DialNoRead(f.Proxy.Addr(), 4096)
	if err != nil {
		res.Clients[0].WriteErr = err
		return res
	}
	defer c.Close()
	cs := &spec.Clients[0]
	var stream []byte
	for j := range cs.Reqs {
		stream = append(stream, cs.Reqs[j].Encode()...)
	}
	werr := make(chan error, 1)
	go func() { werr <- c.WriteChunks(stream, cs.Cuts, time.Duration(cs.PauseUs)*time.Microsecond) }()
	// wait until the backends have answered everything they received (bounded), then a little more
	settle := func() {
		stable := time.Now()
		start := time.Now()
		last := -1
		for time.Since(stable) < 40*time.Millisecond && time.Since(start) < 3*time.Second {
			n := 0
			for _, r := range f.Cluster.Log() {
				if !r.RepliedAt().IsZero() {
					n++
				}
			}
			if n != last {
				last = n
				stable = time.Now()
			}
			time.Sleep(2 * time.Millisecond)
		}
	}
	settle()
	if held > 0 {
		// now the held head replies: everything behind them is complete and gets flushed in one go
		gates.releaseAll()
		settle()
	}
	c.StartReading()
	select {
	case res.Clients[0].WriteErr = <-werr:
	case <-time.After(20 * time.Second):
		res.Clients[0].WriteErr = fmt.Errorf("client write did not finish within 20s")
	}
	c.WaitRepliesProgress(want, 10*time.Second, 300*time.Second)
	return res.collect(f, []*rclient.Client{c})
}

// runPhased drives one client that lets its replies pile up in the proxy and consumes them in stages: in each
// phase it first reads exactly Read bytes of the backlog, gives the proxy a moment to push more of what it
// holds into the socket, then sends its next Reqs requests and waits until the backends have answered them.
// At the end it reads everything. The byte stream it sees must be the replies in request order whatever part
// of the backlog sat in which of the proxy's buffers when a later reply was appended.
func runPhased(f *Fixture, spec *PipeSpec, want int) *PipeResult {
	if os.Getenv("VERIF_TIMING") != "" {
		t0 := time.Now()
		defer func() {
			tot := 0
			for _, p := range spec.Plans {
				tot += p.BulkLen
			}
			fmt.Printf("TIMING phased rcvbuf=%d backlog=%d phases=%d took=%dms\n", spec.Clients[0].RcvBuf, tot, len(spec.Clients[0].Phases), time.Since(t0).Milliseconds())
		}()
	}
	pi := indexPlans(spec)
	gates := &gateSet{}
	gates.releaseAll()
	f.Cluster.ResetLog()
	f.Cluster.SetHandler(pi.handler(gates))
	defer f.Cluster.SetHandler(nil)
	abandon(f, spec.Abandoned)
	res := &PipeResult{Clients: make([]ClientResult, 1)}
	cs := &spec.Clients[0]
	rcv := cs.RcvBuf
	if rcv == 0 {
		rcv = 16384
	}
	c, err := rclient.DialNoRead(f.Proxy.Addr(), rcv)
	if err != nil {
		res.Clients[0].WriteErr = err
		return res
	}
	defer c.Close()
	settle := func() {
		stable, start, last := time.Now(), time.Now(), -1
		for time.Since(stable) < 40*time.Millisecond && time.Since(start) < 3*time.Second {
			n := 0
			for _, r := range f.Cluster.Log() {
				if !r.RepliedAt().IsZero() {
					n++
				}
			}
			if n != last {
				last, stable = n, time.Now()
			}
			time.Sleep(2 * time.Millisecond)
		}
	}
	next := 0
	for _, ph := range cs.Phases {
		if ph.Read > 0 {
			c.ReadExactly(ph.Read, 3*time.Second)
			time.Sleep(15 * time.Millisecond)
		}
		var batch []byte
		for k := 0; k < ph.Reqs && next < len(cs.Reqs); k++ {
			if cs.PauseUs > 0 && ph.Reqs > 8 {
				// one request per write, a moment apart
				if err := c.Write(cs.Reqs[next].Encode()); err != nil {
					res.Clients[0].WriteErr = err
					break
				}
				time.Sleep(time.Duration(cs.PauseUs) * time.Microsecond)
				next++
				continue
			}
			batch = append(batch, cs.Reqs[next].Encode()...)
			next++
		}
		if cs.PauseUs > 0 && ph.Reqs > 8 {
			settle()
		}
		if len(batch) > 0 {
			if err := c.Write(batch); err != nil {
				res.Clients[0].WriteErr = err
				break
			}
			settle()
		}
	}
	c.StartReading()
	c.WaitRepliesProgress(want, 10*time.Second, 300*time.Second)
	return res.collect(f, []*rclient.Client{c})
}

// ---- per-execution nonce ------------------------------------------------------------------------------
// Generated keys carry a token c<client>r<request>k<key>. Before a case is executed its tokens are stamped with a
// nonce unique to this execution (c0r3k1~17.42), so that a backend request still travelling from an earlier case
// (a late re-send after a redirection, say) cannot be mistaken for one of this case: collect() drops logged
// requests whose token carries a foreign nonce and counts them.

var tokenRe = regexp.MustCompile(`c\d+r\d+k\d+`)
var stampedRe = regexp.MustCompile(`c\d+r\d+k\d+~([0-9.]+)`)

func stampBin(b Bin, nonce string) Bin {
	if b == nil || !tokenRe.Match(b) {
		return b
	}
	return Bin(tokenRe.ReplaceAll(b, []byte("${0}~"+nonce)))
}

// stampSpec returns a deep copy of spec with every key token stamped.
func stampSpec(spec *PipeSpec, nonce string) *PipeSpec {
	raw, _ := json.Marshal(spec)
	var out PipeSpec
	json.Unmarshal(raw, &out)
	out.DeadAddr = spec.DeadAddr
	for ci := range out.Clients {
		for ri := range out.Clients[ci].Reqs {
			r := &out.Clients[ci].Reqs[ri]
			for ai := range r.Args {
				r.Args[ai] = stampBin(r.Args[ai], nonce)
			}
		}
	}
	for i := range out.Plans {
		out.Plans[i].Key = stampBin(out.Plans[i].Key, nonce)
	}
	for i := range out.Values {
		out.Values[i].Key = stampBin(out.Values[i].Key, nonce)
	}
	for i := range out.Present {
		out.Present[i] = stampBin(out.Present[i], nonce)
	}
	out.nonce = nonce
	return &out
}

// foreignNonce reports whether a logged request carries the token of another execution.
func foreignNonce(r *fakecluster.Request, nonce string) bool {
	if nonce == "" {
		return false
	}
	for _, a := range r.Args[1:] {
		if m := stampedRe.FindSubmatch(a); m != nil && string(m[1]) != nonce {
			return true
		}
	}
	return false
}
