package checks

import (
	"os"
	"bytes"
	"encoding/json"
	"fmt"
	"sort"
	"strings"
	"testing"
	"time"

	"pgregory.net/rapid"

	"verifharness/evidence"
	"verifharness/fakecluster"
	"verifharness/rclient"
	"verifharness/refmodel"
	"verifharness/sut"
)

// C14: the routing table converges within a few seconds to what the most recent valid CLUSTER NODES reply
// describes; unusable replies leave the previous map in force and never prevent later updates.

type c14Step struct {
	Kind int `json:"kind"`
	A    int `json:"a"`
	B    int `json:"b"`
	C    int `json:"c"`
}

type c14Case struct {
	Cfg   sut.Config `json:"cfg"`
	Init  topoSpec   `json:"init"`
	Steps []c14Step  `json:"steps"`
}

const c14Nodes = 10

var c14KindNames = map[int]string{0: "add-master", 1: "remove-master", 2: "add-replica", 3: "remove-replica", 4: "move-range", 5: "move-single-slot",
	6: "failover", 7: "reparent-replica", 8: "flag-node", 9: "unflag-all", 10: "link-down", 11: "heal-info", 12: "addr-form", 13: "migration-markers",
	14: "two-changes-with-a-late-probe-reply", 15: "replace-node",
	20: "unusable-error-reply", 21: "unusable-nil-reply", 22: "unusable-oversized", 23: "unusable-short-lines"}

func c14Gen(t *rapid.T) c14Case {
	var c c14Case
	c.Cfg = rapid.SampledFrom([]sut.Config{{}, {ServerConns: 2}, {Password: "pw"}}).Draw(t, "cfg")
	c.Init = genTopoSpec(t, 0, 2, true)
	for c.Init.nodes() > 7 {
		// leave spare nodes for additions
		for i := range c.Init.Reps {
			if c.Init.Reps[i] > 0 && c.Init.nodes() > 7 {
				c.Init.Reps[i]--
			}
		}
		if c.Init.nodes() > 7 {
			c.Init.Reps = c.Init.Reps[:len(c.Init.Reps)-1]
			for i := range c.Init.Ranges {
				if c.Init.Ranges[i][2] >= len(c.Init.Reps) {
					c.Init.Ranges[i][2] = 0
				}
			}
		}
	}
	for c.Init.nodes() < 3 {
		c.Init.Reps[0]++
	}
	n := rapid.IntRange(2, 6).Draw(t, "nsteps")
	kinds := []int{0, 1, 2, 2, 3, 4, 4, 5, 6, 6, 7, 7, 8, 9, 10, 11, 12, 13, 14, 14, 15, 20, 21, 22, 23}
	if rapid.IntRange(0, 5).Draw(t, "rolling") == 0 {
		// rolling replacement: a small cluster whose nodes are replaced one after the other by nodes at new
		// addresses (same roles, same slots), then further changes
		c.Init = genTopoSpec(t, 0, 0, false)
		for len(c.Init.Reps) > 3 {
			c.Init.Reps = c.Init.Reps[:len(c.Init.Reps)-1]
		}
		for len(c.Init.Reps) < 3 {
			c.Init.Reps = append(c.Init.Reps, 0)
		}
		for i := range c.Init.Reps {
			c.Init.Reps[i] = 0
		}
		for i := range c.Init.Ranges {
			c.Init.Ranges[i][2] = i % 3
		}
		if len(c.Init.Ranges) < 3 {
			c.Init.Ranges = [][3]int{{0, 5460, 0}, {5461, 10922, 1}, {10923, 16383, 2}}
		}
		for i := 0; i < 3; i++ {
			c.Steps = append(c.Steps, c14Step{Kind: 15, A: i, B: rapid.IntRange(0, 1000).Draw(t, "b")})
		}
		for i := rapid.IntRange(1, 2).Draw(t, "after"); i > 0; i-- {
			c.Steps = append(c.Steps, c14Step{Kind: rapid.SampledFrom([]int{4, 5, 0, 2}).Draw(t, "kind"), A: rapid.IntRange(0, 1000).Draw(t, "a"), B: rapid.IntRange(0, 1000).Draw(t, "b"), C: rapid.IntRange(0, 16383).Draw(t, "c")})
		}
		return c
	}
	for i := 0; i < n; i++ {
		c.Steps = append(c.Steps, c14Step{Kind: rapid.SampledFrom(kinds).Draw(t, "kind"), A: rapid.IntRange(0, 1000).Draw(t, "a"), B: rapid.IntRange(0, 1000).Draw(t, "b"), C: rapid.IntRange(0, 16383).Draw(t, "c")})
	}
	return c
}

// c14Model is the mutable topology model of one history.
type c14Model struct {
	cl      *fakecluster.Cluster
	topo    *fakecluster.Topo
	infoBad map[int]string // node -> "loading" | "linkdown"
	// known: what the proxy's own node table holds after the last description it adopted (1 = listed there,
	// 2 = a master that claimed no slot: the property does not say whether such a line counts as a node).
	// INFO is consulted only for nodes the proxy does not know yet ("newly discovered replicas").
	known map[int]int
}

// adopted records the node table the proxy holds once it has adopted the current description.
func (m *c14Model) adopted() {
	m.known = map[int]int{}
	for i := range m.topo.Nodes {
		x := &m.topo.Nodes[i]
		switch {
		case !x.Usable():
		case x.Master && len(x.Slots) == 0:
			m.known[x.Node] = 2
		case !x.Master && m.infoBad[x.Node] != "":
		default:
			m.known[x.Node] = 1
		}
	}
}

// countableMax also counts healthy masters that claim no slot (see known).
func (m *c14Model) countableMax() int {
	n := m.countable()
	for i := range m.topo.Nodes {
		x := &m.topo.Nodes[i]
		if x.Usable() && x.Master && len(x.Slots) == 0 {
			n++
		}
	}
	return n
}

func (m *c14Model) present(node int) *fakecluster.TNode {
	for i := range m.topo.Nodes {
		if m.topo.Nodes[i].Node == node {
			return &m.topo.Nodes[i]
		}
	}
	return nil
}

func (m *c14Model) absent() []int {
	var out []int
	for i := 0; i < c14Nodes; i++ {
		if m.present(i) == nil {
			out = append(out, i)
		}
	}
	return out
}

func (m *c14Model) masters() []*fakecluster.TNode {
	var out []*fakecluster.TNode
	for i := range m.topo.Nodes {
		if m.topo.Nodes[i].Master {
			out = append(out, &m.topo.Nodes[i])
		}
	}
	return out
}

func (m *c14Model) replicas() []*fakecluster.TNode {
	var out []*fakecluster.TNode
	for i := range m.topo.Nodes {
		if !m.topo.Nodes[i].Master {
			out = append(out, &m.topo.Nodes[i])
		}
	}
	return out
}

func (m *c14Model) remove(node int) {
	var out []fakecluster.TNode
	for _, n := range m.topo.Nodes {
		if n.Node != node {
			out = append(out, n)
		}
	}
	m.topo.Nodes = out
}

// countable is the number of lines the proxy may count as usable nodes: usable lines, minus masters without
// slots, minus newly discovered replicas with bad INFO.
func (m *c14Model) countable() int {
	n := 0
	for i := range m.topo.Nodes {
		x := &m.topo.Nodes[i]
		if !x.Usable() {
			continue
		}
		if x.Master && len(x.Slots) == 0 {
			continue
		}
		if !x.Master && m.infoBad[x.Node] != "" {
			continue
		}
		n++
	}
	return n
}

func (m *c14Model) excluded() map[int]bool {
	ex := map[int]bool{}
	for n := range m.infoBad {
		ex[n] = true
	}
	return ex
}

func (m *c14Model) syncInfo() {
	for i := 0; i < c14Nodes; i++ {
		isSlave := false
		if x := m.present(i); x != nil {
			isSlave = !x.Master
		}
		switch m.infoBad[i] {
		case "loading":
			m.cl.SetInfo(i, true, true, true)
		case "linkdown":
			m.cl.SetInfo(i, false, false, true)
		default:
			m.cl.SetInfo(i, false, true, isSlave)
		}
	}
}

// apply mutates the model; it returns a description, or "" if the step is not applicable in this state.
func (m *c14Model) apply(s c14Step) string {
	ms := m.masters()
	rs := m.replicas()
	ab := m.absent()
	switch s.Kind {
	case 0: // add master taking part of a donor's range
		if len(ab) == 0 {
			return ""
		}
		var donors []*fakecluster.TNode
		for _, x := range ms {
			for _, r := range x.Slots {
				if r[1] > r[0] {
					donors = append(donors, x)
					break
				}
			}
		}
		if len(donors) == 0 {
			return ""
		}
		d := donors[s.A%len(donors)]
		for i, r := range d.Slots {
			if r[1] > r[0] {
				cut := r[0] + 1 + s.C%(r[1]-r[0])
				d.Slots[i] = [2]int{r[0], cut - 1}
				x := ab[s.B%len(ab)]
				m.topo.Nodes = append(m.topo.Nodes, fakecluster.TNode{ID: m.cl.Nodes[x].ID, Node: x, Master: true, Slots: [][2]int{{cut, r[1]}}})
				return fmt.Sprintf("node %d joins as a master taking %d-%d from node %d", x, cut, r[1], d.Node)
			}
		}
		return ""
	case 1: // remove a master
		if len(ms) < 2 {
			return ""
		}
		v := ms[s.A%len(ms)]
		heirIdx := (s.A%len(ms) + 1 + s.B%(len(ms)-1)) % len(ms)
		heir := ms[heirIdx]
		if heir == v {
			return ""
		}
		desc := fmt.Sprintf("master node %d leaves", v.Node)
		if s.C%4 != 0 {
			heir.Slots = append(heir.Slots, v.Slots...)
			desc += fmt.Sprintf(", its slots go to node %d", heir.Node)
		} else {
			desc += ", its slots are left unowned"
		}
		for _, r := range rs {
			if r.MasterID == v.ID {
				r.MasterID = heir.ID
			}
		}
		m.remove(v.Node)
		return desc
	case 2: // add a replica, possibly not ready yet
		if len(ab) == 0 || len(ms) == 0 {
			return ""
		}
		x := ab[s.B%len(ab)]
		mm := ms[s.A%len(ms)]
		m.topo.Nodes = append(m.topo.Nodes, fakecluster.TNode{ID: m.cl.Nodes[x].ID, Node: x, MasterID: mm.ID})
		desc := fmt.Sprintf("node %d joins as a replica of node %d", x, mm.Node)
		if m.known[x] != 0 {
			// its removal was never adopted (or it may still be listed): not a newly discovered node, INFO is not consulted
			return desc + " (the proxy may still know it)"
		}
		switch s.C % 5 {
		case 0:
			m.infoBad[x] = "loading"
			desc += " (INFO: loading)"
		case 1:
			m.infoBad[x] = "linkdown"
			desc += " (INFO: master link down)"
		}
		return desc
	case 3:
		if len(rs) == 0 {
			return ""
		}
		v := rs[s.A%len(rs)]
		delete(m.infoBad, v.Node)
		m.remove(v.Node)
		return fmt.Sprintf("replica node %d leaves", v.Node)
	case 4: // move a whole range to another master
		if len(ms) < 2 {
			return ""
		}
		a := ms[s.A%len(ms)]
		b := ms[(s.A%len(ms)+1+s.B%(len(ms)-1))%len(ms)]
		if a == b || len(a.Slots) == 0 {
			return ""
		}
		i := s.C % len(a.Slots)
		r := a.Slots[i]
		a.Slots = append(a.Slots[:i:i], a.Slots[i+1:]...)
		b.Slots = append(b.Slots, r)
		return fmt.Sprintf("range %d-%d moves from node %d to node %d", r[0], r[1], a.Node, b.Node)
	case 5: // move a single slot out of a range
		if len(ms) < 2 {
			return ""
		}
		a := ms[s.A%len(ms)]
		b := ms[(s.A%len(ms)+1+s.B%(len(ms)-1))%len(ms)]
		if a == b {
			return ""
		}
		for i, r := range a.Slots {
			if r[1]-r[0] >= 2 {
				slot := r[0] + 1 + s.C%(r[1]-r[0]-1)
				a.Slots[i] = [2]int{r[0], slot - 1}
				a.Slots = append(a.Slots, [2]int{slot + 1, r[1]})
				b.Slots = append(b.Slots, [2]int{slot, slot})
				return fmt.Sprintf("slot %d moves from node %d to node %d", slot, a.Node, b.Node)
			}
		}
		return ""
	case 6: // failover: a healthy replica takes over its master's slots
		var cands []*fakecluster.TNode
		for _, r := range rs {
			if m.infoBad[r.Node] == "" && r.Usable() {
				cands = append(cands, r)
			}
		}
		if len(cands) == 0 {
			return ""
		}
		r := cands[s.A%len(cands)]
		var old *fakecluster.TNode
		for _, x := range ms {
			if x.ID == r.MasterID {
				old = x
			}
		}
		if old == nil {
			return ""
		}
		r.Master, r.Slots, r.MasterID = true, old.Slots, ""
		old.Master, old.Slots, old.MasterID = false, nil, r.ID
		for _, o := range rs {
			if o != r && o.MasterID == old.ID {
				o.MasterID = r.ID
			}
		}
		return fmt.Sprintf("failover: replica node %d becomes master, node %d becomes its replica", r.Node, old.Node)
	case 7: // a replica switches master
		if len(rs) == 0 || len(ms) < 2 {
			return ""
		}
		r := rs[s.A%len(rs)]
		var others []*fakecluster.TNode
		for _, x := range ms {
			if x.ID != r.MasterID {
				others = append(others, x)
			}
		}
		if len(others) == 0 {
			return ""
		}
		nm := others[s.B%len(others)]
		r.MasterID = nm.ID
		return fmt.Sprintf("replica node %d now replicates node %d", r.Node, nm.Node)
	case 8:
		if len(m.topo.Nodes) == 0 {
			return ""
		}
		x := &m.topo.Nodes[s.A%len(m.topo.Nodes)]
		// nofailover (cluster-replica-no-failover) says nothing about the node's health
		fls := [][]string{{"fail"}, {"handshake"}, {"noaddr"}, {"nofailover"}, {"fail", "nofailover"}, {"nofailover", "fail"}, {"nofailover"}}[s.B%7]
		x.Flags = fls
		return fmt.Sprintf("node %d is flagged %s", x.Node, strings.Join(fls, ","))
	case 9:
		for i := range m.topo.Nodes {
			m.topo.Nodes[i].Flags = nil
			m.topo.Nodes[i].LinkDown = false
		}
		return "all flags and links are healthy again"
	case 10:
		if len(m.topo.Nodes) == 0 {
			return ""
		}
		x := &m.topo.Nodes[s.A%len(m.topo.Nodes)]
		x.LinkDown = true
		return fmt.Sprintf("link to node %d is reported disconnected", x.Node)
	case 11:
		if len(m.infoBad) == 0 {
			return ""
		}
		m.infoBad = map[int]string{}
		return "replicas finished loading / re-linked (INFO healthy)"
	case 12:
		m.topo.AddrForm = []int{3, 4, 7}[s.A%3]
		return fmt.Sprintf("address form %d", m.topo.AddrForm)
	case 15: // a node is replaced by one at a new address (a restarted pod): same role, same slots, same replicas
		if len(ab) == 0 || len(m.topo.Nodes) == 0 {
			return ""
		}
		// the A-th of the nodes that have been there longest (so that a rolling replacement walks through all of them)
		xi := s.A % len(m.topo.Nodes)
		if s.A < len(m.topo.Nodes) {
			xi = 0
		}
		x := m.topo.Nodes[xi]
		y := ab[s.B%len(ab)]
		nn := fakecluster.TNode{ID: m.cl.Nodes[y].ID, Node: y, Master: x.Master, MasterID: x.MasterID, Slots: x.Slots}
		for i := range m.topo.Nodes {
			if m.topo.Nodes[i].MasterID == x.ID {
				m.topo.Nodes[i].MasterID = nn.ID
			}
		}
		delete(m.infoBad, x.Node)
		m.remove(x.Node)
		m.topo.Nodes = append(m.topo.Nodes, nn)
		return fmt.Sprintf("node %d is replaced by node %d (new address, same role and slots)", x.Node, y)
	case 13:
		if len(ms) < 2 {
			return ""
		}
		a := ms[s.A%len(ms)]
		b := ms[(s.A+1)%len(ms)]
		a.Marks = []string{fmt.Sprintf("[%d->-%s]", s.C, b.ID)}
		b.Marks = []string{fmt.Sprintf("[%d-<-%s]", s.C, a.ID)}
		return fmt.Sprintf("slot %d shown as migrating from node %d to node %d", s.C, a.Node, b.Node)
	}
	return ""
}

func unusableReply(kind int, m *c14Model, viewer int) []byte {
	switch kind {
	case 20:
		return []byte("-ERR CLUSTER NODES is temporarily unavailable\r\n")
	case 21:
		return []byte("$-1\r\n")
	case 22:
		text := m.topo.Render(m.cl, viewer)
		var b strings.Builder
		b.WriteString(text)
		for b.Len() <= 170000 {
			b.WriteString("0000000000000000000000000000000000000000 127.0.0.1:1 handshake - 0 0 0 disconnected\n")
		}
		return refmodel.Bulk([]byte(b.String()))
	default:
		cp := m.topo.Clone()
		for i := range cp.Nodes {
			cp.Nodes[i].Short = true
		}
		return cp.Reply(m.cl, viewer)
	}
}

// c14Probe checks the routing of the proxy against exp on the given slots. It returns a description of the
// first mismatch ("" = routing equals the model).
func c14Probe(f *Fixture, exp []fakecluster.SlotOwner, slots []int, round int) string {
	const reads = 8
	var reqs []Req
	for i, s := range slots {
		reqs = append(reqs, Req{Name: Bin("set"), Args: []Bin{Bin(refmodel.KeyInSlot(s, fmt.Sprintf("w%d.%d", round, i))), Bin("v")}})
		for k := 0; k < reads; k++ {
			reqs = append(reqs, Req{Name: Bin("get"), Args: []Bin{Bin(refmodel.KeyInSlot(s, fmt.Sprintf("g%d.%d.%d", round, i, k)))}})
		}
	}
	f.Cluster.ResetLog()
	cl, err := rclient.Dial(f.Proxy.Addr(), "")
	if err != nil {
		return "cannot connect to the proxy: " + err.Error()
	}
	defer cl.Close()
	var stream []byte
	for i := range reqs {
		stream = append(stream, reqs[i].Encode()...)
	}
	if err := cl.Write(stream); err != nil {
		return "write failed: " + err.Error()
	}
	if !cl.WaitReplies(len(reqs), 2500*time.Millisecond) {
		st := cl.Snapshot()
		return fmt.Sprintf("only %d of %d probe replies arrived (eof=%v)", len(st.Replies), len(reqs), st.EOF)
	}
	st := cl.Snapshot()
	at := map[string]int{}
	for _, lr := range f.Cluster.Log() {
		at[lr.Key(1)] = lr.Node + 1
	}
	for i := range reqs {
		key := string(reqs[i].Args[0])
		slot := refmodel.KeySlot(reqs[i].Args[0])
		own := exp[slot]
		rep := st.Replies[i].Raw
		node := at[key] - 1
		if own.Master < 0 {
			if !isErrorReply(rep) || node >= 0 {
				return fmt.Sprintf("slot %d is claimed by nobody, but %s was answered %s (forwarded to node %d)", slot, reqs[i].lname(), q(rep), node)
			}
			continue
		}
		if isErrorReply(rep) || node < 0 {
			return fmt.Sprintf("slot %d belongs to node %d, but %s was answered %s (node %d)", slot, own.Master, reqs[i].lname(), q(rep), node)
		}
		ok := node == own.Master
		if reqs[i].lname() == "get" {
			for _, r := range own.Replicas {
				if r == node {
					ok = true
				}
			}
		}
		if !ok {
			return fmt.Sprintf("%s for slot %d went to node %d; the model says master %d, usable replicas %v", reqs[i].lname(), slot, node, own.Master, own.Replicas)
		}
	}
	return ""
}

func c14Slots(tops ...*fakecluster.Topo) []int {
	set := map[int]bool{0: true, 16383: true, 8191: true, 12345: true, 4242: true}
	for _, t := range tops {
		if t == nil {
			continue
		}
		for i := range t.Nodes {
			for _, r := range t.Nodes[i].Slots {
				for _, s := range []int{r[0] - 1, r[0], r[0] + 1, r[1] - 1, r[1], r[1] + 1} {
					if s >= 0 && s < 16384 {
						set[s] = true
					}
				}
			}
		}
	}
	var out []int
	for s := range set {
		out = append(out, s)
	}
	sort.Ints(out)
	if len(out) > 90 {
		// keep it bounded: every other boundary beyond 90
		var thin []int
		for i, s := range out {
			if i%((len(out)+89)/90) == 0 {
				thin = append(thin, s)
			}
		}
		out = thin
	}
	return out
}

// c14InitialModel builds the model of the generated initial topology on nodes 0..k-1 of cl; it returns the
// number of nodes in use.
func c14InitialModel(cl *fakecluster.Cluster, c *c14Case) (*c14Model, int) {
	ts := c.Init
	topo := &fakecluster.Topo{AddrForm: ts.AddrForm, Rotate: ts.Rotate, Reverse: ts.Reverse}
	mN := len(ts.Reps)
	for i := 0; i < mN; i++ {
		n := fakecluster.TNode{ID: cl.Nodes[i].ID, Node: i, Master: true}
		for _, r := range ts.Ranges {
			if r[2] == i {
				n.Slots = append(n.Slots, [2]int{r[0], r[1]})
			}
		}
		topo.Nodes = append(topo.Nodes, n)
	}
	idx := mN
	for i := 0; i < mN; i++ {
		for j := 0; j < ts.Reps[i]; j++ {
			topo.Nodes = append(topo.Nodes, fakecluster.TNode{ID: cl.Nodes[idx].ID, Node: idx, MasterID: cl.Nodes[i].ID})
			idx++
		}
	}
	return &c14Model{cl: cl, topo: topo, infoBad: map[int]string{}, known: map[int]int{}}, idx
}

// c14ParseHook is the in-process refresh-step executor (c14_parse_test.go, build tag verif).
var c14ParseHook func(c *c14Case) ([]Discrepancy, []string)

// c14TableHook replays the long-lived node-table check (same file).
var c14TableHook func(rounds, seed int) []Discrepancy

func c14Exec(c *c14Case) ([]Discrepancy, []string) {
	var trace []string
	cl, err := fakecluster.New(c14Nodes)
	if err != nil {
		harnessProblem("cannot build the fake cluster: %v", err)
	}
	defer cl.Close()
	m, idx := c14InitialModel(cl, c)
	topo := m.topo
	m.syncInfo()
	var f *Fixture
	for attempt := 0; attempt < 3; attempt++ {
		f, err = startFixtureWith(cl, topo.Clone(), c.Cfg, []int{0, idx - 1}, nil)
		if err == nil {
			break
		}
		time.Sleep(time.Second)
	}
	if err != nil {
		return []Discrepancy{disc("C14/proxy-does-not-serve", "the proxy did not start serving the initial topology: %v", err)}, trace
	}
	defer f.Proxy.Stop()
	evidence.For("C14").Add("proxy_starts", 1)

	expected := topo.Expected(nil)
	prevTopo := topo.Clone()
	round := 0
	if msg := c14Converge(f, expected, c14Slots(topo), &round, 10*time.Second); msg != "" {
		return []Discrepancy{disc("C14/initial-topology-not-adopted", "initial topology: %s", msg)}, trace
	}
	m.adopted()
	for si, s := range c.Steps {
		if s.Kind >= 20 {
			kind := s.Kind
			snap := &c14Model{cl: cl, topo: m.topo.Clone()}
			cl.SetTopology(func(viewer int) []byte { return unusableReply(kind, snap, viewer) })
			trace = append(trace, fmt.Sprintf("step %d: %s", si, c14KindNames[s.Kind]))
			time.Sleep(2500 * time.Millisecond)
			if msg := c14Probe(f, expected, c14Slots(prevTopo), round); msg != "" {
				if !f.Proxy.Alive() {
					return f.checkAlive("C14", nil), trace
				}
				return []Discrepancy{disc("C14/unusable-reply-changed-routing", "after %s the previous map should still be in force, but: %s", c14KindNames[s.Kind], msg)}, trace
			}
			round++
			// back to the (unchanged) valid description
			m.topo.Clone().Install(cl)
			continue
		}
		if s.Kind == 14 {
			// two valid changes in a row; the probe answered with the first description is late and reaches the
			// proxy right before the probe answered with the second one
			ab := []int{4, 5, 6, 7, 8, 4, 6, 7}
			before := m.topo.Clone()
			d1 := m.apply(c14Step{Kind: ab[s.A%len(ab)], A: s.B, B: s.C, C: s.C})
			if d1 == "" || m.countable() < 3 {
				m.topo = before
				trace = append(trace, fmt.Sprintf("step %d: %s not applicable, skipped", si, c14KindNames[s.Kind]))
				continue
			}
			gs := &gateSet{}
			cl.SetProbeGate(func() <-chan struct{} { return gs.add(time.Now().UnixNano()) })
			m.syncInfo()
			m.topo.Clone().Install(cl)
			waitHeld := func(n int) bool {
				for i := 0; i < 600; i++ {
					if total, _ := gs.counts(); total >= n {
						return true
					}
					time.Sleep(5 * time.Millisecond)
				}
				return false
			}
			ok1 := waitHeld(1)
			mid := m.topo.Clone()
			m.adopted() // the first description is delivered, and adopted, before the second is parsed
			d2 := m.apply(c14Step{Kind: ab[s.B%len(ab)], A: s.C, B: s.A, C: (s.C * 7) % 16384})
			if d2 == "" || m.countable() < 3 {
				m.topo = mid
				d2 = "(no second change)"
			}
			m.syncInfo()
			m.topo.Clone().Install(cl)
			held, _ := gs.counts()
			ok2 := waitHeld(held + 1)
			cl.SetProbeGate(nil)
			// deliver them in arrival order, a few milliseconds apart
			for {
				if !gs.releaseNth(0) {
					break
				}
				time.Sleep(3 * time.Millisecond)
			}
			gs.releaseAll()
			desc := fmt.Sprintf("%s; then %s; late probe replies delivered back to back (held %v/%v)", d1, d2, ok1, ok2)
			trace = append(trace, fmt.Sprintf("step %d: %s", si, desc))
			expected = m.topo.Expected(m.excluded())
			slots := c14Slots(prevTopo, mid, m.topo)
			if msg := c14Converge(f, expected, slots, &round, 10*time.Second); msg != "" {
				ds := f.checkAlive("C14", nil)
				return append(ds, disc("C14/not-converged-after-back-to-back-replies", "10 s after step %d (%s) the routing still differs from the latest description: %s", si, desc, msg)), trace
			}
			prevTopo = m.topo.Clone()
			m.adopted()
			continue
		}
		beforeTopo, beforeBad := m.topo.Clone(), map[int]string{}
		for k, v := range m.infoBad {
			beforeBad[k] = v
		}
		desc := m.apply(s)
		if desc == "" {
			trace = append(trace, fmt.Sprintf("step %d: %s not applicable, skipped", si, c14KindNames[s.Kind]))
			continue
		}
		if m.countable() < 3 && m.countableMax() >= 3 {
			// whether this description has three usable nodes depends on whether a master without slots counts
			// as one; the property does not say, so the step is not played
			m.topo, m.infoBad = beforeTopo, beforeBad
			evidence.For("C14").Add("steps_skipped_node_count_depends_on_slotless_master", 1)
			trace = append(trace, fmt.Sprintf("step %d: %s would leave the node count open to interpretation, skipped", si, c14KindNames[s.Kind]))
			continue
		}
		m.syncInfo()
		m.topo.Clone().Install(cl)
		usable := m.countable() >= 3
		trace = append(trace, fmt.Sprintf("step %d: %s (countable nodes %d)", si, desc, m.countable()))
		if os.Getenv("VERIF_C14_VERBOSE") != "" {
			trace = append(trace, m.topo.Render(cl, 0))
		}
		if usable {
			expected = m.topo.Expected(m.excluded())
		}
		slots := c14Slots(prevTopo, m.topo)
		if !usable {
			// fewer than three usable nodes: the description is unusable, the previous map stays
			time.Sleep(2500 * time.Millisecond)
			if msg := c14Probe(f, expected, slots, round); msg != "" {
				return append(f.checkAlive("C14", nil), disc("C14/unusable-reply-changed-routing", "after a description with fewer than three usable nodes (%s) the previous map should still be in force, but: %s", desc, msg)), trace
			}
			round++
			continue
		}
		if msg := c14Converge(f, expected, slots, &round, 10*time.Second); msg != "" {
			ds := f.checkAlive("C14", nil)
			sig := "C14/not-converged"
			for _, st := range c.Steps[:si] {
				if st.Kind >= 20 {
					sig = "C14/not-converged-after-unusable-reply"
				}
			}
			return append(ds, disc(sig, "10 s after step %d (%s) the routing still differs from the description: %s", si, desc, msg)), trace
		}
		prevTopo = m.topo.Clone()
		m.adopted()
	}
	return nil, trace
}

// c14Converge polls until the routing equals exp or the deadline passes; returns the last mismatch.
func c14Converge(f *Fixture, exp []fakecluster.SlotOwner, slots []int, round *int, deadline time.Duration) string {
	end := time.Now().Add(deadline)
	var msg string
	for {
		msg = c14Probe(f, exp, slots, *round)
		*round++
		if msg == "" || !f.Proxy.Alive() || time.Now().After(end) {
			return msg
		}
		time.Sleep(300 * time.Millisecond)
	}
}

func c14Classify(c *c14Case) (bool, []string) {
	var cls []string
	nt := false
	seenUnusable := false
	for _, s := range c.Steps {
		cls = append(cls, "step-"+c14KindNames[s.Kind])
		if s.Kind >= 20 {
			seenUnusable = true
		} else if seenUnusable {
			nt = true
			cls = append(cls, "valid-after-unusable")
		}
		if s.Kind == 1 || s.Kind == 3 || s.Kind == 6 || s.Kind == 7 || s.Kind == 14 {
			nt = true
		}
	}
	return nt, dedup(cls)
}

func init() {
	registerReplay("C14", func(raw json.RawMessage) ([]Discrepancy, error) {
		var pc struct {
			Level  string  `json:"level"`
			Case   c14Case `json:"case"`
			Rounds int     `json:"rounds"`
			Seed   int     `json:"seed"`
		}
		if err := json.Unmarshal(raw, &pc); err == nil && pc.Level == "node-table" {
			if c14TableHook == nil {
				harnessProblem("this case replays the refresh step in-process: build the harness with -tags verif")
			}
			return c14TableHook(pc.Rounds, pc.Seed), nil
		}
		if err := json.Unmarshal(raw, &pc); err == nil && pc.Level != "" {
			if c14ParseHook == nil {
				harnessProblem("this case replays the refresh step in-process: build the harness with -tags verif")
			}
			ds, tr := c14ParseHook(&pc.Case)
			for _, l := range tr {
				fmt.Println("   ", l)
			}
			return ds, nil
		}
		var c c14Case
		if err := json.Unmarshal(raw, &c); err != nil {
			return nil, err
		}
		ds, tr := c14Exec(&c)
		for _, l := range tr {
			fmt.Println("   ", l)
		}
		return ds, nil
	})
}

func TestC14(t *testing.T) {
	rec := evidence.For("C14")
	rapidCheck(t, func(t *rapid.T) {
		c := c14Gen(t)
		nt, cls := c14Classify(&c)
		rec.Case(&c, nt, cls...)
		ds, tr := c14Exec(&c)
		for i := range ds {
			ds[i].Msg += " | history: " + strings.Join(tr, "; ")
		}
		report(t, "C14", &c, ds)
	})
}

var _ = bytes.Equal
