package checks

import (
	"strings"
	"encoding/hex"
	"encoding/json"
	"strconv"
	"testing"

	"pgregory.net/rapid"

	"rcproxy/core/pkg/hashkit"

	"verifharness/evidence"
	"verifharness/refmodel"
)

// C05: hashkit.Hash(key) == the Redis Cluster specification's key slot, for every byte string.

type c05Case struct {
	KeyHex string `json:"key_hex"`
	KeyQ   string `json:"key_quoted"`
}

func c05Exec(key []byte) []Discrepancy {
	got := int(hashkit.Hash(string(key)))
	want := refmodel.KeySlot(key)
	if got != want {
		return []Discrepancy{disc("C05/slot-mismatch", "key %q: proxy slot %d, specification slot %d", key, got, want)}
	}
	return nil
}

func c05NT(key []byte) (bool, []string) {
	hasO, hasC, nonASCII := false, false, false
	for _, c := range key {
		switch {
		case c == '{':
			hasO = true
		case c == '}':
			hasC = true
		case c >= 0x80:
			nonASCII = true
		}
	}
	edge := len(key) > 0 && (key[0] == '{' || key[0] == '}' || key[len(key)-1] == '{' || key[len(key)-1] == '}')
	var cls []string
	if hasO && hasC {
		cls = append(cls, "both-braces")
	}
	if edge {
		cls = append(cls, "brace-at-edge")
	}
	if nonASCII {
		cls = append(cls, "non-ascii")
	}
	if len(key) == 0 {
		cls = append(cls, "empty")
	}
	return (hasO && hasC) || edge || nonASCII, cls
}

func mkC05Case(key []byte) c05Case {
	return c05Case{KeyHex: hex.EncodeToString(key), KeyQ: strconv.Quote(string(key))}
}

func init() {
	registerReplay("C05", func(raw json.RawMessage) ([]Discrepancy, error) {
		var dc c05DecCase
		if err := json.Unmarshal(raw, &dc); err == nil && dc.Req.Name != nil {
			if refmodel.MultiKey(dc.Req.lname()) {
				ds := c06DecodeExec(&dc.Req)
				for i := range ds {
					ds[i].Sig = "C05/multikey-" + strings.TrimPrefix(ds[i].Sig, "C06/")
				}
				return ds, nil
			}
			return c05DecodeExec(&dc.Req), nil
		}
		var c c05Case
		if err := json.Unmarshal(raw, &c); err != nil {
			return nil, err
		}
		k, err := hex.DecodeString(c.KeyHex)
		if err != nil {
			return nil, err
		}
		return c05Exec(k), nil
	})
}

func fnv64(b []byte) uint64 {
	h := uint64(14695981039346656037)
	for _, c := range b {
		h ^= uint64(c)
		h *= 1099511628211
	}
	return h
}

// TestC05Exhaustive enumerates every string over {'{','}','a','b'} up to length 9 (this shard's share).
func TestC05Exhaustive(t *testing.T) {
	rec := evidence.For("C05")
	shards := envInt("VERIF_SHARDS", 1)
	me := envInt("VERIF_SHARD", 0)
	alpha := []byte("{}ab")
	maxLen := 9
	if thorough() {
		maxLen = 11
	}
	idx := 0
	key := make([]byte, 0, maxLen)
	var failed []Discrepancy
	var failKey []byte
	// shortest strings first, so the first failure is a minimal one
	var walk func(depth, target int)
	walk = func(depth, target int) {
		if failed != nil {
			return
		}
		if depth == target {
			if idx%shards == me {
				k := key
				nt, cls := c05NT(k)
				rec.CaseKey(fnv64(k)^uint64(len(k)), nt, func() interface{} { return mkC05Case(k) }, cls...)
				if ds := c05Exec(k); ds != nil {
					failed, failKey = ds, append([]byte(nil), k...)
				}
			}
			idx++
			return
		}
		for _, c := range alpha {
			key = append(key, c)
			walk(depth+1, target)
			key = key[:len(key)-1]
		}
	}
	for l := 0; l <= maxLen && failed == nil; l++ {
		walk(0, l)
	}
	if failed != nil {
		report(t, "C05", mkC05Case(failKey), failed)
	}
	rec.Exhaustive(false) // the random part below is not exhaustive
	rec.Add("exhaustive_small_scope_strings", idx)
	rec.Note("small scope: every string over {'{','}','a','b'} up to length " + strconv.Itoa(maxLen) + " enumerated (split over the shards)")
}

func c05Gen() *rapid.Generator[[]byte] {
	braceHeavy := rapid.SliceOfN(rapid.SampledFrom([]byte("{}{}{}ab\x00\xff\r\n:")), 0, 40)
	binary := rapid.SliceOfN(rapid.Byte(), 0, 512)
	tagged := rapid.Custom(func(t *rapid.T) []byte {
		pre := rapid.SliceOfN(rapid.SampledFrom([]byte("ab}c")), 0, 6).Draw(t, "pre")
		tag := rapid.SliceOfN(rapid.Byte(), 0, 12).Draw(t, "tag")
		post := rapid.SliceOfN(rapid.SampledFrom([]byte("ab{}c")), 0, 6).Draw(t, "post")
		out := append([]byte{}, pre...)
		out = append(out, '{')
		out = append(out, tag...)
		out = append(out, '}')
		return append(out, post...)
	})
	return rapid.OneOf(braceHeavy, binary, tagged)
}

func TestC05(t *testing.T) {
	rec := evidence.For("C05")
	rapidCheck(t, func(t *rapid.T) {
		key := c05Gen().Draw(t, "key")
		nt, cls := c05NT(key)
		rec.CaseKey(fnv64(key)^uint64(len(key))<<48, nt, func() interface{} { return mkC05Case(key) }, cls...)
		report(t, "C05", mkC05Case(key), c05Exec(key))
	})
}

func FuzzC05(f *testing.F) {
	for _, s := range []string{"", "a", "{a}", "a}b{c}", "{}{x}", "{{x}}", "x{", "}{", "{a}{b}", "\x00{\xff}"} {
		f.Add([]byte(s))
	}
	f.Fuzz(func(t *testing.T, key []byte) {
		if ds := c05Exec(key); ds != nil {
			report(t, "C05", mkC05Case(key), ds)
		}
	})
}
