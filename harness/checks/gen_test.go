package checks

import (
	"bytes"
	"fmt"
	"strings"

	"pgregory.net/rapid"

	"verifharness/refmodel"
)

// ---- shared generators ---------------------------------------------------------------------------

// genArg draws an argument byte string: empty, ASCII, CR/LF-bearing, arbitrary binary, or long.
func genArg(maxLong int) *rapid.Generator[[]byte] {
	return rapid.Custom(func(t *rapid.T) []byte {
		switch rapid.IntRange(0, 9).Draw(t, "argkind") {
		case 0:
			return []byte{}
		case 1, 2, 3:
			return []byte(rapid.StringMatching(`[a-zA-Z0-9:_\-]{1,24}`).Draw(t, "ascii"))
		case 4:
			return rapid.SliceOfN(rapid.SampledFrom([]byte("\r\n$*+-:ab 0")), 1, 24).Draw(t, "crlf")
		case 5, 6:
			return rapid.SliceOfN(rapid.Byte(), 1, 64).Draw(t, "bin")
		case 7:
			return []byte(fmt.Sprint(rapid.IntRange(-1000, 100000).Draw(t, "num")))
		default:
			n := rapid.IntRange(65, maxLong).Draw(t, "longlen")
			seed := rapid.SliceOfN(rapid.Byte(), 1, 16).Draw(t, "longseed")
			return bytes.Repeat(seed, n/len(seed)+1)[:n]
		}
	})
}

// genCaseName draws a letter-case variant of a command name.
func genCaseName(name string) *rapid.Generator[[]byte] {
	return rapid.Custom(func(t *rapid.T) []byte {
		switch rapid.IntRange(0, 3).Draw(t, "casekind") {
		case 0:
			return []byte(name)
		case 1:
			return []byte(strings.ToUpper(name))
		default:
			b := []byte(name)
			mask := rapid.Uint64().Draw(t, "casemask")
			for i := range b {
				if mask>>(uint(i)%64)&1 == 1 && b[i] >= 'a' && b[i] <= 'z' {
					b[i] -= 32
				}
			}
			return b
		}
	})
}

var errFamilies = []string{
	"ERR unknown command 'foo'", "ERR syntax error", "ERR value is not an integer or out of range",
	"WRONGTYPE Operation against a key holding the wrong kind of value", "LOADING Redis is loading the dataset in memory",
	"CLUSTERDOWN The cluster is down", "CLUSTERDOWN Hash slot not served", "TRYAGAIN Multiple keys request during rehashing of slot",
	"CROSSSLOT Keys in request don't hash to the same slot", "READONLY You can't write against a read only slave.",
	"BUSY Redis is busy running a script. You can call SCRIPT KILL or SHUTDOWN NOSAVE.", "OOM command not allowed when used memory > 'maxmemory'.",
	"MISCONF Redis is configured to save RDB snapshots, but is currently not able to persist on disk.", "NOSCRIPT No matching script. Please use EVAL.",
	"MASTERDOWN Link with MASTER is down and slave-serve-stale-data is set to 'no'.", "NOPERM this user has no permissions", "EXECABORT Transaction discarded",
	"ERR", "E", "MOVE not a redirect", "ASKED nothing", "NOAUTHX",
}

// actedOn reports whether the proxy itself acts on an error line with this text (so it is not relayed).
func actedOn(line string) bool {
	for _, p := range []string{"MOVED", "ASK", "NOAUTH Authentication required", "ERR invalid password", "ERR Client sent AUTH, but no password is set", "ERR AUTH <password> called without any password configured"} {
		if strings.HasPrefix(line, p) {
			return true
		}
	}
	return false
}

// genErrorLine draws a Redis error reply ("-...\r\n") that the proxy relays.
func genErrorLine() *rapid.Generator[[]byte] {
	return rapid.Custom(func(t *rapid.T) []byte {
		var line string
		if rapid.IntRange(0, 4).Draw(t, "errkind") == 0 {
			line = rapid.StringMatching(`[A-Z]{1,10}( [ -~]{0,40})?`).Draw(t, "errtext")
		} else {
			line = rapid.SampledFrom(errFamilies).Draw(t, "errfam")
		}
		if actedOn(line) {
			line = "X" + line
		}
		return []byte("-" + line + "\r\n")
	})
}

// genReplyTree draws a well-formed RESP2 reply of bounded size.
func genReplyTree(maxBulk, depth int) *rapid.Generator[[]byte] {
	return rapid.Custom(func(t *rapid.T) []byte { return drawReply(t, maxBulk, depth, true) })
}

func drawReply(t *rapid.T, maxBulk, depth int, top bool) []byte {
	k := rapid.IntRange(0, 11).Draw(t, "replykind")
	if depth <= 0 && k >= 9 {
		k = 3
	}
	switch k {
	case 0:
		return []byte("+OK\r\n")
	case 1:
		if rapid.IntRange(0, 2).Draw(t, "okprefix") == 0 {
			// status lines that merely begin like the common ones
			return []byte("+" + rapid.SampledFrom([]string{"OK 3 entries flushed", "OKAY", "OK ", "OK\t", "PONG!", "QUEUEDx", "O", "ok"}).Draw(t, "nearok") + "\r\n")
		}
		return []byte("+" + rapid.StringMatching(`[ -~]{0,30}`).Draw(t, "status") + "\r\n")
	case 2:
		if top {
			return genErrorLine().Draw(t, "error")
		}
		return []byte("-ERR nested\r\n")
	case 3:
		return refmodel.Int(rapid.Int64Range(-1<<40, 1<<40).Draw(t, "int"))
	case 4:
		return refmodel.NullBulk
	case 5:
		return []byte("*-1\r\n")
	case 6:
		return refmodel.Bulk(nil)
	case 7, 8:
		return refmodel.Bulk(genArg(maxBulk).Draw(t, "bulk"))
	case 9:
		return []byte("*0\r\n")
	default:
		n := rapid.IntRange(1, 5).Draw(t, "arrlen")
		items := make([][]byte, n)
		for i := range items {
			items[i] = drawReply(t, maxBulk/2+1, depth-1, false)
		}
		return refmodel.Array(items...)
	}
}

// genCuts draws write sizes for a stream of n bytes.
func genCuts(n int) *rapid.Generator[[]int] {
	return rapid.Custom(func(t *rapid.T) []int {
		kind := rapid.IntRange(0, 5).Draw(t, "cutkind")
		if n <= 1 {
			return nil
		}
		switch kind {
		case 0, 1:
			return nil // one write
		case 2:
			// byte by byte for short streams, else small fixed chunks
			sz := 1
			if n > 300 {
				sz = rapid.IntRange(2, 37).Draw(t, "chunk")
			}
			k := n / sz
			if k > 400 {
				k = 400
			}
			out := make([]int, k)
			for i := range out {
				out[i] = sz
			}
			return out
		default:
			k := rapid.IntRange(1, 8).Draw(t, "ncuts")
			out := make([]int, k)
			for i := range out {
				out[i] = rapid.IntRange(1, n).Draw(t, "cut")
			}
			return out
		}
	})
}

// replyClasses names the structural classes of an encoded reply (for evidence histograms).
func replyClasses(rep []byte) []string {
	var cls []string
	switch {
	case len(rep) == 0:
	case rep[0] == '*' && bytes.Contains(rep[1:], []byte("*")):
		cls = append(cls, "reply-nested-array")
	case rep[0] == '*':
		cls = append(cls, "reply-array")
	case bytes.Equal(rep, refmodel.NullBulk):
		cls = append(cls, "reply-null")
	case rep[0] == '-':
		cls = append(cls, "reply-error")
	case rep[0] == ':':
		cls = append(cls, "reply-int")
	case rep[0] == '+':
		cls = append(cls, "reply-status")
	case rep[0] == '$':
		cls = append(cls, "reply-bulk")
	}
	if len(rep) > 4096 {
		cls = append(cls, "reply-large")
	}
	return cls
}

func argClasses(a []byte) []string {
	var cls []string
	switch {
	case len(a) == 0:
		cls = append(cls, "arg-empty")
	case bytes.ContainsAny(a, "\r\n"):
		cls = append(cls, "arg-crlf")
	}
	for _, c := range a {
		if c < 0x20 || c > 0x7e {
			cls = append(cls, "arg-binary")
			break
		}
	}
	if len(a) > 64 {
		cls = append(cls, "arg-long")
	}
	return cls
}

// genAbandoned draws 0-3 incomplete requests left behind by clients that disconnect mid-request.
func genAbandoned(t *rapid.T) []Bin {
	if rapid.IntRange(0, 3).Draw(t, "abandon") != 0 {
		return nil
	}
	n := rapid.IntRange(1, 3).Draw(t, "nabandoned")
	var out []Bin
	for i := 0; i < n; i++ {
		full := refmodel.EncodeCmdS("set", "abandoned-"+rapid.StringMatching(`[a-z]{1,8}`).Draw(t, "abkey"), rapid.StringMatching(`[A-Z]{1,40}`).Draw(t, "abval"))
		cut := rapid.IntRange(1, len(full)-1).Draw(t, "abcut")
		out = append(out, Bin(full[:cut]))
	}
	return out
}
