package checks

import (
	"bytes"
	"encoding/json"
	"testing"

	"pgregory.net/rapid"

	"rcproxy/core"

	"verifharness/evidence"
	"verifharness/refmodel"
)

// In-process half of C06 (volume): the exported client decoder splits MGET/DEL/MSET into Msg.Body fragments;
// the multiset of fragment requests must equal the reference split, each filed under its reference slot.

type c06DecCase struct {
	Req Req `json:"req"`
}

func c06DecodeExec(r *Req) (ds []Discrepancy) {
	c12DecodeInit()
	defer func() {
		if p := recover(); p != nil {
			ds = append(ds, disc("C06/decoder-panic", "the request decoder panicked on %s: %v", q(r.Encode()), p))
		}
	}()
	data := r.Encode()
	rc := &core.CRespCodec{MsgMaxLength: 64 << 20}
	conn := &memConn{data: data}
	msg, err := rc.Decode(conn)
	if err != nil || msg == nil {
		return []Discrepancy{disc("C06/decoder-rejects-valid", "a valid %s with %d arguments was not decoded: %v", r.lname(), len(r.Args), err)}
	}
	defer core.MsgPool.Put(msg)
	if conn.discarded != len(data) {
		return []Discrepancy{disc("C06/decoder-consumed-wrong-length", "request of %d bytes: the decoder consumed %d", len(data), conn.discarded)}
	}
	name := r.lname()
	want := refSplit(name, r.Args)
	if len(msg.Body) != len(want) {
		return []Discrepancy{disc("C06/fragment-count", "%s with %d key arguments: %d fragments, the reference split has %d (one per distinct slot)", name, len(r.Args), len(msg.Body), len(want))}
	}
	for _, fr := range want {
		got := msg.Body[int32(fr.Slot)]
		if got == nil {
			return []Discrepancy{disc("C06/fragment-slot", "no fragment filed under reference slot %d for %s", fr.Slot, q(data))}
		}
		args := [][]byte{[]byte(name)}
		args = append(args, fr.Args...)
		exp := refmodel.EncodeCmd(args...)
		if !bytes.Equal(got.Req, exp) {
			return []Discrepancy{disc("C06/fragment-content", "fragment for slot %d differs from the reference: got %s want %s", fr.Slot, q(got.Req), q(exp))}
		}
	}
	return nil
}

func init() {
	registerReplay("C06dec", func(raw json.RawMessage) ([]Discrepancy, error) {
		var c c06DecCase
		if err := json.Unmarshal(raw, &c); err != nil {
			return nil, err
		}
		return c06DecodeExec(&c.Req), nil
	})
}

func TestC06Decode(t *testing.T) {
	rec := evidence.For("C06")
	rapidCheck(t, func(t *rapid.T) {
		maxKeys := 40
		if rapid.IntRange(0, 30).Draw(t, "many") == 0 {
			maxKeys = 600
		}
		r := genMultiKeyReq(t, maxKeys, []string{"mget", "del", "mset"})
		slots, dup, multi := mkClassify(&r)
		cls := []string{"dec-" + r.lname()}
		if dup {
			cls = append(cls, "dec-duplicate-keys")
		}
		if multi {
			cls = append(cls, "dec-several-keys-in-a-slot")
		}
		c := c06DecCase{Req: r}
		rec.CaseKey(fnv64(r.Encode())^0x06, slots >= 2 && (dup || multi), func() interface{} { return c }, cls...)
		report(t, "C06", &c, c06DecodeExec(&r))
	})
}
