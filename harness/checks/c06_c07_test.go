package checks

import (
	"bytes"
	"encoding/json"
	"fmt"
	"sort"
	"testing"
	"time"

	"pgregory.net/rapid"

	"verifharness/evidence"
	"verifharness/fakecluster"
	"verifharness/rclient"
	"verifharness/refmodel"
	"verifharness/sut"
)

// C06: MGET/DEL/MSET are split into exactly one well-formed fragment per distinct slot, holding the keys of
//      that slot in the original relative order (MSET with the paired values), and nothing else.
// C07: the fragment replies are merged correctly whatever order they arrive in.

type mkCase struct {
	Cfg  sut.Config `json:"cfg"`
	Spec PipeSpec   `json:"spec"` // one client, one multi-key request (plus optional neighbours for C07)
	// Bystander > 0 (C06): while the request is handled, another client sends this many GETs, one write each,
	// without waiting: other connections' reads and replies fall between the request's decoding and its forwarding
	Bystander int `json:"bystander_requests,omitempty"`
}

// genMultiKeyReq draws one MGET/DEL/MSET with up to maxKeys keys: duplicates, colliding hash tags, empty and
// binary keys and values, many keys per slot.
func genMultiKeyReq(t *rapid.T, maxKeys int, names []string) Req {
	name := rapid.SampledFrom(names).Draw(t, "mkname")
	r := Req{Name: genCaseName(name).Draw(t, "cased")}
	nk := rapid.IntRange(1, maxKeys).Draw(t, "nkeys")
	if rapid.IntRange(0, 3).Draw(t, "fewkeys") > 0 && nk > 12 {
		nk = rapid.IntRange(1, 12).Draw(t, "nkeys-small")
	}
	nslots := rapid.IntRange(1, 6).Draw(t, "nslots")
	tags := make([]string, nslots)
	for i := range tags {
		tags[i] = refmodel.TagForSlot(rapid.IntRange(0, 16383).Draw(t, "slot"))
	}
	var keys []Bin
	for i := 0; i < nk; i++ {
		var k Bin
		switch rapid.IntRange(0, 9).Draw(t, "keykind") {
		case 0:
			if len(keys) > 0 {
				k = keys[rapid.IntRange(0, len(keys)-1).Draw(t, "dupidx")] // duplicate
			} else {
				k = Bin("dup")
			}
		case 1:
			k = Bin(genArg(200).Draw(t, "rawkey")) // arbitrary bytes, may be empty, may contain braces
		case 2:
			k = Bin(fmt.Sprintf("plain-%d", i))
		default:
			tag := tags[rapid.IntRange(0, nslots-1).Draw(t, "tag")]
			k = Bin(fmt.Sprintf("{%s}k%d", tag, rapid.IntRange(0, nk).Draw(t, "suffix")))
		}
		keys = append(keys, k)
		r.Args = append(r.Args, k)
		if name == "mset" {
			r.Args = append(r.Args, Bin(genArg(100).Draw(t, "val")))
		}
	}
	return r
}

func mkClassify(r *Req) (slots int, dup bool, multiPerSlot bool) {
	name := r.lname()
	step := 1
	if name == "mset" {
		step = 2
	}
	seen := map[string]bool{}
	per := map[int]int{}
	for i := 0; i < len(r.Args); i += step {
		if seen[string(r.Args[i])] {
			dup = true
		}
		seen[string(r.Args[i])] = true
		per[refmodel.KeySlot(r.Args[i])]++
	}
	for _, n := range per {
		if n > 1 {
			multiPerSlot = true
		}
	}
	return len(per), dup, multiPerSlot
}

// ---- C06 -------------------------------------------------------------------------------------------------

func c06Gen(t *rapid.T) mkCase {
	var c mkCase
	c.Cfg = rapid.SampledFrom(shardPick([]sut.Config{{}, {DisableSlave: true}, {ServerConns: 2}}, 2)).Draw(t, "cfg")
	maxKeys := 300
	if thorough() {
		maxKeys = 5000
	}
	r := genMultiKeyReq(t, maxKeys, []string{"mget", "del", "mset"})
	cs := ClientSpec{Reqs: []Req{r}}
	cs.Cuts = genCuts(len(r.Encode())).Draw(t, "cuts")
	c.Spec.Clients = []ClientSpec{cs}
	if rapid.IntRange(0, 2).Draw(t, "bystander") == 0 {
		c.Bystander = rapid.SampledFrom([]int{50, 200, 600}).Draw(t, "nbystander")
	}
	if rapid.IntRange(0, 3).Draw(t, "movedslots") == 0 {
		// one or two of the request's slots have moved: the fragment is sent again to the node the old owner names
		frs := refSplit(r.lname(), r.Args)
		for k := rapid.IntRange(1, 2).Draw(t, "nmoved"); k > 0 && len(frs) > 0; k-- {
			slot := frs[rapid.IntRange(0, len(frs)-1).Draw(t, "movedfrag")].Slot
			dup := false
			for _, m := range c.Spec.Moved {
				if m.Slot == slot {
					dup = true
				}
			}
			if !dup {
				c.Spec.Moved = append(c.Spec.Moved, SlotNode{Slot: slot, Node: (c13NodeOf(slot) + 1 + rapid.IntRange(0, 1).Draw(t, "movedto")) % 3})
			}
		}
	}
	return c
}

// c06Bystander sends n GETs, one write each, and returns a function that waits for the replies and judges them.
func c06Bystander(f *Fixture, n int) func() []Discrepancy {
	cl, err := rclient.Dial(f.Proxy.Addr(), "")
	if err != nil {
		return func() []Discrepancy { return []Discrepancy{disc("C06/connect", "bystander cannot connect: %v", err)} }
	}
	keys := make([]string, n)
	done := make(chan struct{})
	go func() {
		defer close(done)
		for i := 0; i < n; i++ {
			keys[i] = refmodel.KeyInSlot([]int{200, 7000, 13000}[i%3], fmt.Sprintf("bystander-%d", i))
			if cl.Write(refmodel.EncodeCmd([]byte("get"), []byte(keys[i]))) != nil {
				return
			}
			if i%8 == 7 {
				time.Sleep(50 * time.Microsecond)
			}
		}
	}()
	return func() []Discrepancy {
		defer cl.Close()
		<-done
		cl.WaitReplies(n, 8*time.Second)
		st := cl.Snapshot()
		for i := 0; i < n; i++ {
			want := refmodel.Bulk(fakecluster.EchoValue("get", keys[i]))
			if i >= len(st.Replies) {
				return []Discrepancy{disc("C06/bystander-missing-replies", "the client sending plain GETs next to the multi-key request got %d of %d replies", len(st.Replies), n)}
			}
			if !bytes.Equal(st.Replies[i].Raw, want) {
				return []Discrepancy{disc("C06/bystander-wrong-reply", "the client sending plain GETs next to the multi-key request got %s for its request %d (GET %s)", q(st.Replies[i].Raw), i+1, q([]byte(keys[i])))}
			}
		}
		return nil
	}
}

func c06Exec(c *mkCase) []Discrepancy {
	f := getFixture("C06", c.Cfg, 3, 1)
	ds := c06Run(f, c)
	if len(ds) > 0 {
		dropFixture(f)
	}
	return ds
}

func c06Run(f *Fixture, c *mkCase) []Discrepancy {
	var finish func() []Discrepancy
	if c.Bystander > 0 {
		f.Cluster.ResetLog()
		finish = c06Bystander(f, c.Bystander)
		time.Sleep(300 * time.Microsecond)
	}
	ds := pipeRunCompare("C06", f, &c.Cfg, &c.Spec, 0)
	if finish != nil {
		ds = append(ds, finish()...)
	}
	if len(ds) > 0 {
		return ds
	}
	// one request was in flight, so every logged command is a fragment of it
	r := &c.Spec.Clients[0].Reqs[0]
	name := r.lname()
	want := refSplit(name, r.Args)
	log := f.Cluster.Log()
	var got [][]byte
	moved := map[int]int{}
	for _, m := range c.Spec.Moved {
		moved[m.Slot] = m.Node
	}
	for _, lr := range log {
		if k := lr.Key(1); len(k) > 8 && (bytes.Contains([]byte(k), []byte("}witness-")) || bytes.HasSuffix([]byte(k), []byte("}ready"))) {
			continue
		}
		if k := lr.Key(1); c.Bystander > 0 && lr.Name == "get" && bytes.Contains([]byte(k), []byte("}bystander-")) {
			continue
		}
		if ks := keysOf(lr.Name, lr.Args); len(ks) > 0 {
			if target, ok := moved[refmodel.KeySlot(ks[0])]; ok {
				if lr.Node != target {
					continue // the first hop, answered -MOVED
				}
				got = append(got, lr.Raw)
				if lr.Name != name {
					ds = append(ds, disc("C06/wrong-command", "a fragment of %s arrived as %q", name, lr.Name))
				}
				continue
			}
		}
		got = append(got, lr.Raw)
		if lr.Name != name {
			ds = append(ds, disc("C06/wrong-command", "a fragment of %s arrived as %q", name, lr.Name))
		}
		// routed to a node of the slot's replica set
		ks := keysOf(lr.Name, lr.Args)
		if len(ks) > 0 {
			own := f.Owners[refmodel.KeySlot(ks[0])]
			ok := lr.Node == own.Master
			for _, rp := range own.Replicas {
				if rp == lr.Node && !c.Cfg.DisableSlave {
					ok = true
				}
			}
			if !ok {
				ds = append(ds, disc("C06/fragment-at-wrong-node", "fragment for slot %d arrived at node %d (owner %d, replicas %v)", refmodel.KeySlot(ks[0]), lr.Node, own.Master, own.Replicas))
			}
		}
	}
	var exp [][]byte
	for _, fr := range want {
		args := [][]byte{[]byte(name)}
		args = append(args, fr.Args...)
		exp = append(exp, refmodel.EncodeCmd(args...))
	}
	sortBytes(got)
	sortBytes(exp)
	if len(got) != len(exp) {
		ds = append(ds, disc("C06/fragment-count", "%d fragments reached the backends, the reference split has %d (one per distinct slot)", len(got), len(exp)))
		return ds
	}
	for i := range exp {
		if !bytes.Equal(got[i], exp[i]) {
			ds = append(ds, disc("C06/fragment-content", "fragment differs from the reference: got %s want %s", q(got[i]), q(exp[i])))
			break
		}
	}
	return ds
}

func sortBytes(b [][]byte) {
	sort.Slice(b, func(i, j int) bool { return bytes.Compare(b[i], b[j]) < 0 })
}

func TestC06(t *testing.T) {
	rec := evidence.For("C06")
	rapidCheck(t, func(t *rapid.T) {
		c := c06Gen(t)
		slots, dup, multi := mkClassify(&c.Spec.Clients[0].Reqs[0])
		var cls []string
		cls = append(cls, "cmd-"+c.Spec.Clients[0].Reqs[0].lname())
		if dup {
			cls = append(cls, "duplicate-keys")
		}
		if multi {
			cls = append(cls, "several-keys-in-a-slot")
		}
		if slots >= 2 {
			cls = append(cls, "two-or-more-slots")
		}
		if c.Bystander > 0 {
			cls = append(cls, "next-to-another-clients-traffic")
		}
		if len(c.Spec.Moved) > 0 {
			cls = append(cls, "fragment-sent-again-after-moved")
		}
		rec.Case(&c, (slots >= 2 && (dup || multi)) || (c.Bystander > 0 && multi), cls...)
		report(t, "C06", &c, c06Exec(&c))
	})
}

// ---- C07 -------------------------------------------------------------------------------------------------

func c07Gen(t *rapid.T) mkCase {
	var c mkCase
	c.Cfg = rapid.SampledFrom(shardPick([]sut.Config{{}, {DisableSlave: true}, {ServerConns: 3}, {MaxLen: 900}}, 2)).Draw(t, "cfg")
	maxKeys := 200
	if rapid.IntRange(0, 20).Draw(t, "manykeys") == 0 {
		maxKeys = 2000
	}
	if c.Cfg.MaxLen > 0 {
		maxKeys = 8 // request and replies have to stay near the small limit
	}
	r := genMultiKeyReq(t, maxKeys, []string{"mget", "mget", "del", "mset"})
	name := r.lname()
	frags := refSplit(name, r.Args)
	// store contents for MGET: present (any bytes, may be empty) or absent
	if name == "mget" {
		seen := map[string]bool{}
		for _, k := range r.Args {
			if seen[string(k)] {
				continue
			}
			seen[string(k)] = true
			switch rapid.IntRange(0, 3).Draw(t, "valkind") {
			case 0:
				c.Spec.Values = append(c.Spec.Values, Value{Key: k, Null: true})
			case 1:
				c.Spec.Values = append(c.Spec.Values, Value{Key: k, Val: Bin(genArg(300).Draw(t, "val"))})
			}
		}
	}
	// every fragment is held; DEL fragments answer a drawn count; rarely one MSET fragment answers a non-OK status
	badMset := -1
	if name == "mset" && rapid.IntRange(0, 5).Draw(t, "badmset") == 0 {
		badMset = rapid.IntRange(0, len(frags)-1).Draw(t, "badidx")
	}
	for i, fr := range frags {
		p := Plan{Key: fr.Keys[0], Hold: true}
		if name == "del" {
			p.Reply = refmodel.Int(int64(rapid.IntRange(0, len(fr.Keys)).Draw(t, "delcount")))
		}
		if i == badMset {
			p.Reply = Bin("+QUEUED\r\n")
		}
		c.Spec.Plans = append(c.Spec.Plans, p)
	}
	c.Spec.Schedule = genSchedule(t, len(frags))
	c.Spec.GapUs = rapid.SampledFrom([]int{0, 300, 1500}).Draw(t, "gapus")
	if len(frags) >= 2 && rapid.IntRange(0, 3).Draw(t, "redirect") == 0 {
		// one fragment is answered with a redirection first (its slot has moved to another master):
		// the merge must still wait for, and use, the final node's reply
		fr := frags[rapid.IntRange(0, len(frags)-1).Draw(t, "redirfrag")]
		owner := 0
		switch {
		case fr.Slot > 10921:
			owner = 2
		case fr.Slot > 5460:
			owner = 1
		}
		c.Spec.Moved = append(c.Spec.Moved, SlotNode{Slot: fr.Slot, Node: (owner + 1 + rapid.IntRange(0, 1).Draw(t, "redirto")) % 3})
	}
	cs := ClientSpec{}
	// neighbours before and after, so that the merged reply has to keep its place
	if rapid.Bool().Draw(t, "before") {
		cs.Reqs = append(cs.Reqs, Req{Name: Bin("get"), Args: []Bin{Bin("{nb}before")}})
	}
	cs.Reqs = append(cs.Reqs, r)
	if rapid.Bool().Draw(t, "after") {
		cs.Reqs = append(cs.Reqs, Req{Name: Bin("get"), Args: []Bin{Bin("{nb}after")}})
	}
	if rapid.IntRange(0, 2).Draw(t, "second") == 0 {
		// a second split request is decoded (and answered) while the first one is still waiting for its fragments
		n2 := Req{Name: Bin(rapid.SampledFrom([]string{"mget", "del"}).Draw(t, "secondname"))}
		for i, nk := 0, rapid.IntRange(2, 5).Draw(t, "secondkeys"); i < nk; i++ {
			n2.Args = append(n2.Args, Bin(fmt.Sprintf("second-%d-%d", i, rapid.IntRange(0, 99).Draw(t, "secondsfx"))))
		}
		cs.Reqs = append(cs.Reqs, n2)
	}
	c.Spec.Clients = []ClientSpec{cs}
	if c.Cfg.MaxLen > 0 && name == "mget" {
		c07NearLimit(t, &c, &r)
	}
	return c
}

// c07NearLimit stretches one stored value so that the merged reply of the MGET ends up 0-9 bytes below the
// configured limit (or just above it): the sum of the fragment replies is then larger than the limit.
func c07NearLimit(t *rapid.T, c *mkCase, r *Req) {
	rc := &refCtx{MaxLen: 6 << 20}
	target := c.Cfg.MaxLen - rapid.IntRange(-1, 9).Draw(t, "belowlimit")
	k := r.Args[rapid.IntRange(0, len(r.Args)-1).Draw(t, "stretchkey")]
	vi := -1
	for i := range c.Spec.Values {
		if string(c.Spec.Values[i].Key) == string(k) {
			vi = i
		}
	}
	if vi < 0 {
		c.Spec.Values = append(c.Spec.Values, Value{Key: k, Val: Bin("v")})
		vi = len(c.Spec.Values) - 1
	}
	c.Spec.Values[vi].Null = false
	dups := 0
	for _, a := range r.Args {
		if string(a) == string(k) {
			dups++
		}
	}
	for try := 0; try < 6; try++ {
		e := expectFor(r, indexPlans(&c.Spec), rc)
		if e.Exact == nil {
			return
		}
		diff := target - len(e.Exact)
		if diff == 0 {
			return
		}
		n := len(c.Spec.Values[vi].Val) + diff/dups
		if diff/dups == 0 {
			n = len(c.Spec.Values[vi].Val) + diff
		}
		if n < 0 {
			return
		}
		c.Spec.Values[vi].Val = Bin(bytes.Repeat([]byte("s"), n))
	}
}

func c07Exec(c *mkCase) []Discrepancy {
	f := getFixture("C07", c.Cfg, 3, 1)
	ds := pipeRunCompare("C07", f, &c.Cfg, &c.Spec, 0)
	if len(ds) == 0 && len(c.Spec.Schedule) > 1 {
		// metamorphic: the reversed release order must give the same bytes (the reference does not depend on it)
		alt := c.Spec
		alt.Schedule = make([]int, len(c.Spec.Schedule))
		for i := range alt.Schedule {
			alt.Schedule[i] = len(c.Spec.Schedule) // always the last held one
		}
		ds = pipeRunCompare("C07", f, &c.Cfg, &alt, 0)
		for i := range ds {
			ds[i].Msg = "under the reversed arrival order: " + ds[i].Msg
		}
	}
	if len(ds) > 0 {
		dropFixture(f)
	}
	return ds
}

func c07Main(c *mkCase) *Req {
	for i := range c.Spec.Clients[0].Reqs {
		if refmodel.MultiKey(c.Spec.Clients[0].Reqs[i].lname()) {
			return &c.Spec.Clients[0].Reqs[i]
		}
	}
	return &c.Spec.Clients[0].Reqs[0]
}

func TestC07(t *testing.T) {
	rec := evidence.For("C07")
	rapidCheck(t, func(t *rapid.T) {
		c := c07Gen(t)
		r := c07Main(&c)
		slots, dup, _ := mkClassify(r)
		outOfOrder := false
		for i, s := range c.Spec.Schedule {
			if s != 0 && i < len(c.Spec.Schedule)-1 {
				outOfOrder = true
			}
		}
		var cls []string
		cls = append(cls, "cmd-"+r.lname())
		if dup {
			cls = append(cls, "duplicate-keys")
		}
		if outOfOrder {
			cls = append(cls, "non-fifo-arrival")
		}
		if len(c.Spec.Values) > 0 {
			cls = append(cls, "scripted-values")
		}
		if len(c.Spec.Moved) > 0 {
			cls = append(cls, "one-fragment-redirected")
		}
		nmk := 0
		for i := range c.Spec.Clients[0].Reqs {
			if refmodel.MultiKey(c.Spec.Clients[0].Reqs[i].lname()) {
				nmk++
			}
		}
		if nmk > 1 {
			cls = append(cls, "second-split-request-decoded-meanwhile")
		}
		if c.Cfg.MaxLen > 0 && r.lname() == "mget" {
			cls = append(cls, "merged-reply-near-the-size-limit")
		}
		for _, p := range c.Spec.Plans {
			if bytes.Equal(p.Reply, []byte("+QUEUED\r\n")) {
				cls = append(cls, "mset-fragment-not-ok")
			}
		}
		rec.Case(&c, slots >= 2 && (outOfOrder || dup), cls...)
		report(t, "C07", &c, c07Exec(&c))
	})
}

func init() {
	registerReplay("C06", func(raw json.RawMessage) ([]Discrepancy, error) {
		var dc c06DecCase
		if err := json.Unmarshal(raw, &dc); err == nil && dc.Req.Name != nil {
			return c06DecodeExec(&dc.Req), nil
		}
		var c mkCase
		if err := json.Unmarshal(raw, &c); err != nil {
			return nil, err
		}
		return c06Exec(&c), nil
	})
	registerReplay("C07", func(raw json.RawMessage) ([]Discrepancy, error) {
		var c mkCase
		if err := json.Unmarshal(raw, &c); err != nil {
			return nil, err
		}
		return c07Exec(&c), nil
	})
}

var _ = time.Second
