package checks

import (
	"strings"
	"time"

	"encoding/json"
	"fmt"
	"testing"
	"verifharness/rclient"

	"pgregory.net/rapid"

	"verifharness/evidence"
	"verifharness/refmodel"
	"verifharness/sut"
)

// C13: MOVED and ASK naming a known node are followed transparently (ASKING before the re-sent request for
// an ASK), the client gets only the final node's reply, once and in pipeline order, and it terminates.

type c13Case struct {
	Cfg    sut.Config `json:"cfg"`
	Spec   PipeSpec   `json:"spec"`
	Forget []Req      `json:"fire_and_forget,omitempty"` // writes sent by a client that disconnects right after sending: they must still reach the node the redirection names
	// Hung: a request timeout is configured and the node a redirection names never answers (the pipelines of
	// C16 with every stalled request redirected first): the redirected request still has to terminate
	Hung *c16Case `json:"hung_redirect_target,omitempty"`
	// Outage > 0: node Outage-1 - the target of one of the redirections - was down a moment ago: a request routed
	// to it failed while it refused connections; it is back (and serving direct requests) when the case starts
	Outage int `json:"target_was_down,omitempty"`
}

// slots of the even 3-master layout: node 0: 0-5460, node 1: 5461-10921, node 2: 10922-16383
var c13SlotPool = []int{0, 100, 2730, 5460, 5461, 8000, 10921, 10922, 12000, 16383}

func c13NodeOf(slot int) int {
	switch {
	case slot <= 5460:
		return 0
	case slot <= 10921:
		return 1
	}
	return 2
}

func c13Gen(t *rapid.T) c13Case {
	var c c13Case
	if rapid.IntRange(0, 7).Draw(t, "hung") == 0 {
		h := c16Gen(t)
		h.Kill = false
		for i := range h.Reqs {
			if h.Reqs[i].Stall {
				h.Reqs[i].Moved = true
			}
		}
		c.Hung = &h
		c.Cfg = sut.Config{TimeoutMs: h.TimeoutMs, ServerConns: 1}
		return c
	}
	c.Cfg = rapid.SampledFrom(shardPick([]sut.Config{{ServerConns: 1}, {ServerConns: 2}, {ServerConns: 1, Password: "pw"}}, 2)).Draw(t, "cfg")
	if rapid.IntRange(0, 11).Draw(t, "massmove") == 0 {
		// a reshard the proxy has not heard of yet: one split request whose 17-60 fragments are all redirected
		n := rapid.IntRange(17, 60).Draw(t, "nmoved")
		name := rapid.SampledFrom([]string{"mget", "del", "mset"}).Draw(t, "massname")
		r := Req{Name: Bin(name)}
		seen := map[int]bool{}
		for len(seen) < n {
			slot := rapid.IntRange(0, 16383).Draw(t, "massslot")
			if seen[slot] {
				continue
			}
			seen[slot] = true
			c.Spec.Moved = append(c.Spec.Moved, SlotNode{Slot: slot, Node: (c13NodeOf(slot) + 1 + rapid.IntRange(0, 1).Draw(t, "to")) % 3})
			r.Args = append(r.Args, keyFor(slot, 0, 0, len(seen)))
			if name == "mset" {
				r.Args = append(r.Args, Bin(fmt.Sprintf("v%d", len(seen))))
			}
		}
		c.Spec.Clients = []ClientSpec{{Reqs: []Req{r, {Name: Bin("get"), Args: []Bin{keyFor(100, 0, 1, 0)}}}}}
		return c
	}
	// choose which of the pool slots moved / are migrating
	for _, s := range c13SlotPool {
		switch rapid.IntRange(0, 4).Draw(t, "slotstate") {
		case 0:
			c.Spec.Moved = append(c.Spec.Moved, SlotNode{Slot: s, Node: (c13NodeOf(s) + 1 + rapid.IntRange(0, 1).Draw(t, "to")) % 3})
		case 1:
			c.Spec.Migrating = append(c.Spec.Migrating, Mig{Slot: s, Src: c13NodeOf(s), Dst: (c13NodeOf(s) + 1 + rapid.IntRange(0, 1).Draw(t, "dst")) % 3})
		}
	}
	o := pipeOpts{MaxReqs: 12, Slots: c13SlotPool, Multi: true, MaxKeys: 5, HoldPct: 30}
	nc := rapid.IntRange(1, 3).Draw(t, "nclients")
	for ci := 0; ci < nc; ci++ {
		c.Spec.Clients = append(c.Spec.Clients, genClientPipe(t, ci, o, &c.Spec.Plans))
	}
	// SET k v ... GET k on a key of one of the pool slots (store semantics): whatever redirections both take,
	// the read must observe the write
	if rapid.Bool().Draw(t, "setget") && c.Cfg.ServerConns <= 1 { // order is only promised with one connection per node
		ci := rapid.IntRange(0, nc-1).Draw(t, "sgclient")
		k := keyFor(rapid.SampledFrom(c13SlotPool).Draw(t, "sgslot"), ci, 900, 0)
		v := Bin(fmt.Sprintf("written-by-c%d", ci))
		cs := &c.Spec.Clients[ci]
		at := rapid.IntRange(0, len(cs.Reqs)).Draw(t, "sgat")
		pair := []Req{{Name: Bin("SET"), Args: []Bin{k, v}}, {Name: Bin("GET"), Args: []Bin{k}}}
		cs.Reqs = append(cs.Reqs[:at], append(pair, cs.Reqs[at:]...)...)
		cs.Cuts = nil
		c.Spec.Values = append(c.Spec.Values, Value{Key: k, Val: v, Store: true})
	}
	// a client that fires writes at redirected slots and leaves without waiting
	if rapid.IntRange(0, 2).Draw(t, "forget") == 0 {
		n := rapid.IntRange(1, 4).Draw(t, "nforget")
		for i := 0; i < n; i++ {
			k := keyFor(rapid.SampledFrom(c13SlotPool).Draw(t, "fslot"), 7, i, 0)
			c.Forget = append(c.Forget, Req{Name: Bin("set"), Args: []Bin{k, Bin("fire-and-forget")}})
		}
	}
	// some keys of migrating slots are still at the source
	mig := map[int]bool{}
	for _, m := range c.Spec.Migrating {
		mig[m.Slot] = true
	}
	for ci := range c.Spec.Clients {
		for ri := range c.Spec.Clients[ci].Reqs {
			r := &c.Spec.Clients[ci].Reqs[ri]
			name := r.lname()
			step := 1
			if name == "mset" {
				step = 2
			}
			keys := []Bin{keyOfReq(r)}
			if refmodel.MultiKey(name) {
				keys = nil
				for i := 0; i < len(r.Args); i += step {
					keys = append(keys, r.Args[i])
				}
			}
			for _, k := range keys {
				if mig[refmodel.KeySlot(k)] && rapid.IntRange(0, 2).Draw(t, "present") == 0 {
					c.Spec.Present = append(c.Spec.Present, k)
				}
			}
		}
	}
	if rapid.IntRange(0, 3).Draw(t, "outage") == 0 {
		var targets []int
		for _, m := range c.Spec.Moved {
			targets = append(targets, m.Node)
		}
		for _, m := range c.Spec.Migrating {
			targets = append(targets, m.Dst)
		}
		if len(targets) > 0 {
			c.Outage = 1 + rapid.SampledFrom(targets).Draw(t, "outagenode")
		}
	}
	nh := 0
	for _, p := range c.Spec.Plans {
		if p.Hold {
			nh++
		}
	}
	c.Spec.Schedule = genSchedule(t, nh)
	c.Spec.GapUs = rapid.SampledFrom([]int{0, 300}).Draw(t, "gapus")
	if rapid.IntRange(0, 3).Draw(t, "lateredirect") == 0 {
		// redirection replies come late, and some fragments of split requests on healthy slots are answered with an
		// error at once: the request is completed (with that error) before its sibling's redirection arrives
		c.Spec.RedirDelayMs = rapid.SampledFrom([]int{5, 20, 40}).Draw(t, "redirdelay")
		redirected := map[int]bool{}
		for _, m := range c.Spec.Moved {
			redirected[m.Slot] = true
		}
		for _, m := range c.Spec.Migrating {
			redirected[m.Slot] = true
		}
		for ci := range c.Spec.Clients {
			for ri := range c.Spec.Clients[ci].Reqs {
				r := &c.Spec.Clients[ci].Reqs[ri]
				if !refmodel.MultiKey(r.lname()) {
					continue
				}
				frags := refSplit(r.lname(), r.Args)
				hasRedir := false
				for _, fr := range frags {
					if redirected[fr.Slot] {
						hasRedir = true
					}
				}
				if !hasRedir {
					continue
				}
				for _, fr := range frags {
					if !redirected[fr.Slot] && rapid.Bool().Draw(t, "siblingerr") {
						// replace (or add) the plan of this fragment: an immediate error, not held
						np := Plan{Key: fr.Keys[0], Reply: Bin("-LOADING Redis is loading the dataset in memory\r\n")}
						replaced := false
						for pi := range c.Spec.Plans {
							if string(c.Spec.Plans[pi].Key) == string(fr.Keys[0]) {
								c.Spec.Plans[pi] = np
								replaced = true
							}
						}
						if !replaced {
							c.Spec.Plans = append(c.Spec.Plans, np)
						}
					}
				}
			}
		}
		// the schedule must match the held plans that are left
		nh = 0
		for _, p := range c.Spec.Plans {
			if p.Hold {
				nh++
			}
		}
		c.Spec.Schedule = genSchedule(t, nh)
	}
	return c
}

func c13Exec(c *c13Case) []Discrepancy {
	f := getFixture("C13", c.Cfg, 3, 0)
	if c.Hung != nil {
		ds := c16Run(f, c.Hung)
		for i := range ds {
			ds[i].Sig = "C13/redirected-request-" + strings.TrimPrefix(ds[i].Sig, "C16/")
		}
		if len(ds) > 0 {
			dropFixture(f)
		}
		return ds
	}
	ds := c13Run(f, c)
	if len(ds) > 0 {
		dropFixture(f)
	}
	return ds
}

func c13Run(f *Fixture, orig *c13Case) []Discrepancy {
	// work on a copy whose key tokens carry this execution's nonce
	nonce := f.Nonce()
	cc := *orig
	cc.Spec = *stampSpec(&orig.Spec, nonce)
	cc.Forget = nil
	for _, r := range orig.Forget {
		nr := Req{Name: r.Name}
		for _, a := range r.Args {
			nr.Args = append(nr.Args, stampBin(a, nonce))
		}
		cc.Forget = append(cc.Forget, nr)
	}
	c := &cc
	if c.Outage > 0 {
		if msg := c13Outage(f, c.Outage-1); msg == caseDiscarded {
			dropFixture(f)
			return nil
		} else if msg != "" {
			return append(f.checkAlive("C13", nil), disc("C13/not-served-after-outage", "%s", msg))
		}
	}
	ds := pipeRunCompare("C13", f, &c.Cfg, &c.Spec, 0)
	if len(ds) == 0 && len(c.Forget) > 0 {
		ds = c13Forget(f, c)
		if len(ds) > 0 {
			return ds
		}
	}
	// the log tells how often each fragment travelled, and whether ASKING was used correctly
	mig := map[int]Mig{}
	for _, m := range c.Spec.Migrating {
		mig[m.Slot] = m
	}
	hops := map[string]int{}
	for _, lr := range f.LastLog {
		ks := keysOf(lr.Name, lr.Args)
		if len(ks) == 0 {
			continue
		}
		id := lr.Name + "|" + string(ks[0])
		hops[id]++
		slot := refmodel.KeySlot(ks[0])
		m, migrating := mig[slot]
		if lr.Asking && !(migrating && lr.Node == m.Dst) {
			ds = append(ds, disc("C13/asking-without-ask", "ASKING preceded %s for slot %d at node %d although no ASK redirection points there", lr.Name, slot, lr.Node))
		}
	}
	for id, n := range hops {
		if n > 6 {
			ds = append(ds, disc("C13/redirect-loop", "fragment %q was sent %d times: redirect handling does not terminate", id, n))
			break
		}
	}
	if len(ds) > 0 {
		return ds
	}
	// every fragment for a migrating slot whose first key is absent must have reached the target after ASKING
	present := map[string]bool{}
	for _, k := range c.Spec.Present {
		present[string(k)] = true
	}
	for _, lr := range f.LastLog {
		ks := keysOf(lr.Name, lr.Args)
		if len(ks) == 0 {
			continue
		}
		slot := refmodel.KeySlot(ks[0])
		if m, ok := mig[slot]; ok && lr.Node == m.Dst && !present[string(ks[0])] && !lr.Asking {
			// an un-ASKed arrival at the target is only legitimate if the proxy was never told ASK (it is not:
			// the source always answers ASK for absent keys), so this means ASKING was not sent right before
			ds = append(ds, disc("C13/ask-without-asking", "%s for migrating slot %d reached the importing node %d without ASKING right before it on that connection", lr.Name, slot, lr.Node))
			break
		}
	}
	return ds
}

// c13Outage: node refuses connections while one request is routed to it, then comes back and serves a direct
// request again. It returns a complaint if the node is not served afterwards.
func c13Outage(f *Fixture, node int) string {
	slot := []int{50, 6000, 12000}[node%3] // a slot the topology gives to that master, outside the pool of the cases
	f.Cluster.SetDown(node, true)
	time.Sleep(20 * time.Millisecond)
	cl, err := rclient.Dial(f.Proxy.Addr(), "")
	if err != nil {
		f.Cluster.SetDown(node, false)
		return "cannot connect: " + err.Error()
	}
	defer cl.Close()
	cl.Write(refmodel.EncodeCmdS("set", refmodel.KeyInSlot(slot, "outage-probe"), "v"))
	cl.WaitReplies(1, 3*time.Second)
	if err := f.Cluster.SetDown(node, false); err != nil {
		evidence.For("C13").Add("cases_discarded_node_port_lost", 1)
		return caseDiscarded
	}
	time.Sleep(30 * time.Millisecond)
	for attempt := 0; attempt < 40; attempt++ {
		n := len(cl.Snapshot().Replies)
		cl.Write(refmodel.EncodeCmdS("set", refmodel.KeyInSlot(slot, fmt.Sprintf("back-%d", attempt)), "v"))
		if !cl.WaitReplies(n+1, 3*time.Second) {
			return fmt.Sprintf("node %d is back, but a direct request for it got no reply within 3 s", node)
		}
		if st := cl.Snapshot(); !isErrorReply(st.Replies[n].Raw) {
			return "" // served again
		}
		time.Sleep(50 * time.Millisecond)
	}
	return fmt.Sprintf("node %d is back, but direct requests for it are still answered with errors after 2 s", node)
}

// c13Forget: a client writes its requests and disconnects at once. The node that answers MOVED/ASK has not
// executed them, so the proxy must still re-send each to the node the redirection names (the reply is dropped).
func c13Forget(f *Fixture, c *c13Case) []Discrepancy {
	spec := PipeSpec{Moved: c.Spec.Moved, Migrating: c.Spec.Migrating, Present: c.Spec.Present, DeadAddr: c.Spec.DeadAddr}
	pi := indexPlans(&spec)
	f.Cluster.ResetLog()
	f.Cluster.SetHandler(redirectLayer(f, &spec, pi.handler(&gateSet{openAll: true})))
	defer f.Cluster.SetHandler(nil)
	cl, err := rclient.Dial(f.Proxy.Addr(), "")
	if err != nil {
		return []Discrepancy{disc("C13/cannot-connect", "%v", err)}
	}
	var stream []byte
	for i := range c.Forget {
		stream = append(stream, c.Forget[i].Encode()...)
	}
	cl.Write(stream)
	cl.Close()
	moved := map[int]int{}
	for _, m := range c.Spec.Moved {
		moved[m.Slot] = m.Node
	}
	mig := map[int]Mig{}
	for _, m := range c.Spec.Migrating {
		mig[m.Slot] = m
	}
	present := map[string]bool{}
	for _, k := range c.Spec.Present {
		present[string(k)] = true
	}
	// where each write must end up
	final := func(k Bin) int {
		s := refmodel.KeySlot(k)
		if m, ok := mig[s]; ok {
			if present[string(k)] {
				return m.Src
			}
			return m.Dst
		}
		if n, ok := moved[s]; ok {
			return n
		}
		return c13NodeOf(s)
	}
	deadline := time.Now().Add(3 * time.Second)
	for {
		missing := ""
		log := f.Cluster.Log()
		for i := range c.Forget {
			k := c.Forget[i].Args[0]
			want := final(k)
			_, migrating := mig[refmodel.KeySlot(k)]
			needAsking := migrating && !present[string(k)]
			ok := false
			for _, lr := range log {
				if lr.Node == want && lr.Key(1) == string(k) && (!needAsking || lr.Asking) {
					ok = true
				}
			}
			if !ok {
				missing = fmt.Sprintf("%s (slot %d) never reached node %d, where the cluster serves it", q(c.Forget[i].Encode()), refmodel.KeySlot(k), want)
				break
			}
		}
		if missing == "" {
			return nil
		}
		if time.Now().After(deadline) {
			if err := f.Responsive(5 * time.Second); err != nil {
				return append(f.checkAlive("C13", nil), disc("C13/proxy-unresponsive", "%v", err))
			}
			return []Discrepancy{disc("C13/redirected-write-lost", "a client sent %d writes and disconnected without waiting; 3 s later %s", len(c.Forget), missing)}
		}
		time.Sleep(10 * time.Millisecond)
	}
}

func c13Classify(c *c13Case) (bool, []string) {
	if c.Outage > 0 && c.Hung == nil {
		nt, cls := c13ClassifyBase(c)
		return nt, append(cls, "redirection-target-was-down-a-moment-ago")
	}
	return c13ClassifyBase(c)
}

func c13ClassifyBase(c *c13Case) (bool, []string) {
	if len(c.Spec.Moved) >= 17 {
		return true, []string{"split-request-with-17-or-more-redirected-fragments"}
	}
	if c.Hung != nil {
		return true, []string{"redirection-names-a-node-that-never-answers-with-a-timeout-configured"}
	}
	moved := map[int]bool{}
	for _, m := range c.Spec.Moved {
		moved[m.Slot] = true
	}
	mig := map[int]bool{}
	for _, m := range c.Spec.Migrating {
		mig[m.Slot] = true
	}
	present := map[string]bool{}
	for _, k := range c.Spec.Present {
		present[string(k)] = true
	}
	nt := false
	var cls []string
	for ci := range c.Spec.Clients {
		for ri := range c.Spec.Clients[ci].Reqs {
			r := &c.Spec.Clients[ci].Reqs[ri]
			name := r.lname()
			multi := refmodel.MultiKey(name)
			step := 1
			if name == "mset" {
				step = 2
			}
			keys := []Bin{keyOfReq(r)}
			if multi {
				keys = nil
				for i := 0; i < len(r.Args); i += step {
					keys = append(keys, r.Args[i])
				}
			}
			for _, k := range keys {
				s := refmodel.KeySlot(k)
				red := ""
				if mig[s] && !present[string(k)] {
					red = "ask"
					nt = true
				} else if moved[s] {
					red = "moved"
				}
				if red == "" {
					continue
				}
				cls = append(cls, "redirect-"+red)
				if ri > 0 {
					nt = true
					cls = append(cls, "redirect-at-later-pipeline-position")
				}
				if multi {
					nt = true
					cls = append(cls, "redirect-inside-split-request")
				}
			}
		}
	}
	if c.Spec.RedirDelayMs > 0 {
		cls = append(cls, "late-redirection-replies")
	}
	if len(c.Forget) > 0 {
		cls = append(cls, "fire-and-forget-writer")
	}
	if len(c.Spec.Values) > 0 {
		cls = append(cls, "set-get-pair-through-redirects")
	}
	for _, p := range c.Spec.Plans {
		if len(p.Reply) > 0 && p.Reply[0] == '-' {
			cls = append(cls, "sibling-fragment-answered-with-error")
		}
	}
	cls = append(cls, fmt.Sprintf("clients-%d", len(c.Spec.Clients)))
	return nt, dedup(cls)
}

func init() {
	registerReplay("C13", func(raw json.RawMessage) ([]Discrepancy, error) {
		var c c13Case
		if err := json.Unmarshal(raw, &c); err != nil {
			return nil, err
		}
		return c13Exec(&c), nil
	})
}

func TestC13(t *testing.T) {
	rec := evidence.For("C13")
	rapidCheck(t, func(t *rapid.T) {
		c := c13Gen(t)
		nt, cls := c13Classify(&c)
		rec.Case(&c, nt, cls...)
		report(t, "C13", &c, c13Exec(&c))
	})
}
