package checks

import (
	"strings"
	"os"
	"encoding/json"
	"fmt"
	"testing"
	"time"

	"pgregory.net/rapid"

	"verifharness/evidence"
	"verifharness/refmodel"
	"verifharness/sut"
)

// C01: on every client connection exactly one reply per request, in request order, whatever the mix of
// locally answered, rejected and forwarded requests and whatever order the backends answer in.

type c01Case struct {
	Cfg  sut.Config `json:"cfg"`
	Gap  bool       `json:"gap_topology"`
	Spec PipeSpec   `json:"spec"`
	// Hung: a request timeout is configured and some backends do not answer (C16's pipelines, all in one write):
	// still one reply per request, in order - a timeout error where the backend stalled
	Hung *c16Case `json:"stalled_backends,omitempty"`
}

// One extra fixture per shard (three proxies stay alive per shard): either the small send buffer of the backlog
// family or the request timeout of the stall family - never both in one proxy, a big reply may legitimately
// take longer than a short timeout on a busy machine.
var (
	c01BacklogCfg = sut.Config{ServerConns: 1, SndBuf: 4096}
	c01StallCfg   = sut.Config{ServerConns: 1, TimeoutMs: 300}
)

var c01BadSlots = []int{16000, 16100, 16383}

type c01Variant struct {
	Cfg sut.Config
	Gap bool
}

var c01Variants = []c01Variant{
	{sut.Config{ServerConns: 1}, false},
	{sut.Config{ServerConns: 1, MaxLen: 300}, true},
	{sut.Config{ServerConns: 2, Password: "pw1"}, false},
	{sut.Config{ServerConns: 3}, true},
	{sut.Config{ServerConns: 1, Password: "pw1", MaxLen: 300}, false},
	{sut.Config{ServerConns: 2, MaxLen: 300}, false},
	{sut.Config{ServerConns: 1}, true},
	{sut.Config{ServerConns: 3, Password: "pw1"}, false},
}

func c01Gen(t *rapid.T) c01Case {
	var c c01Case
	v := rapid.SampledFrom(shardPick(c01Variants, 2)).Draw(t, "variant") // plus the backlog fixture below: three proxies per shard
	c.Cfg, c.Gap = v.Cfg, v.Gap
	small := c.Cfg.MaxLen > 0
	o := pipeOpts{MaxReqs: 40, Local: true, Quit: true, Rejected: true, Multi: true, Password: c.Cfg.Password, HoldPct: 60}
	if thorough() {
		o.MaxReqs = 120
	}
	if small {
		o.TooLarge = 300
	}
	if c.Gap {
		o.BadSlots = c01BadSlots
	}
	if rapid.IntRange(0, 15).Draw(t, "deep") == 0 {
		// a deep pipeline: a held head request with more than a thousand completed requests piling up behind it
		n := rapid.SampledFrom([]int{1022, 1023, 1024, 1025, 1500, 2600}).Draw(t, "behind")
		head := keyFor(100, 0, 0, 0)
		cs := ClientSpec{Reqs: []Req{{Name: Bin("get"), Args: []Bin{head}}}}
		c.Spec.Plans = append(c.Spec.Plans, Plan{Key: head, Hold: true})
		mix := rapid.IntRange(0, 2).Draw(t, "mix")
		for i := 1; i <= n; i++ {
			if mix == 0 || (mix == 2 && i%3 == 0) {
				cs.Reqs = append(cs.Reqs, Req{Name: Bin("ping")})
			} else {
				cs.Reqs = append(cs.Reqs, Req{Name: Bin("get"), Args: []Bin{keyFor(6000+i%5, 0, i, 0)}})
			}
		}
		if rapid.Bool().Draw(t, "deepquit") {
			cs.Reqs = append(cs.Reqs, Req{Name: Bin("quit")})
		}
		c.Spec.Clients = []ClientSpec{cs}
		c.Spec.Schedule = []int{0}
		c.Spec.HoldMs = 250
		return c
	}
	if rapid.IntRange(0, 11).Draw(t, "backlog") == 0 {
		// a client that lets megabytes of replies pile up, reads part of them, and then sends requests the proxy
		// answers itself (or further GETs): the new reply must come after everything still buffered
		if shardPick([]string{"backlog", "stalls"}, 1)[0] == "stalls" {
			h := c16Gen(t)
			h.TimeoutMs, h.Kill = c01StallCfg.TimeoutMs, false
			c.Hung = &h
			c.Cfg, c.Gap = c01StallCfg, false
			return c
		}
		c.Cfg, c.Gap = c01BacklogCfg, false
		cs, plans := genPhased(t, true)
		c.Spec.Clients = []ClientSpec{cs}
		c.Spec.Plans = plans
		return c
	}
	nc := rapid.IntRange(1, 4).Draw(t, "nclients")
	for ci := 0; ci < nc; ci++ {
		c.Spec.Clients = append(c.Spec.Clients, genClientPipe(t, ci, o, &c.Spec.Plans))
	}
	nh := 0
	for _, p := range c.Spec.Plans {
		if p.Hold {
			nh++
		}
	}
	c.Spec.Schedule = genSchedule(t, nh)
	c.Spec.GapUs = rapid.SampledFrom([]int{0, 200, 1000}).Draw(t, "gapus")
	return c
}

func c01Classify(c *c01Case) (bool, []string) {
	if c.Hung != nil {
		return true, []string{"pipeline-with-stalled-backends-and-a-request-timeout"}
	}
	bad := map[int]bool{}
	if c.Gap {
		for s := 16000; s < 16384; s++ {
			bad[s] = true
		}
	}
	nt := false
	var cls []string
	for ci := range c.Spec.Clients {
		seenFwd := false
		for ri := range c.Spec.Clients[ci].Reqs {
			k := reqKind(&c.Spec.Clients[ci].Reqs[ri], bad, c.Cfg.MaxLen)
			cls = append(cls, "req-"+k)
			switch k {
			case "single", "split":
				seenFwd = true
			default:
				if seenFwd {
					nt = true
					cls = append(cls, "local-or-rejected-after-forwarded")
				}
			}
			if c.Spec.Clients[ci].Reqs[ri].lname() == "quit" {
				cls = append(cls, "quit")
			}
		}
	}
	// out-of-order release: the schedule is not the identity
	for i, s := range c.Spec.Schedule {
		if s != 0 && i < len(c.Spec.Schedule)-1 {
			nt = true
			cls = append(cls, "out-of-order-release")
			break
		}
	}
	if c.Spec.HoldMs > 0 {
		nt = true
		cls = append(cls, "deep-pipeline-behind-held-head")
	}
	if len(c.Spec.Clients) == 1 && len(c.Spec.Clients[0].Phases) > 1 {
		nt = true
		cls = append(cls, "backlog-read-in-part-then-more-requests")
	}
	cls = append(cls, fmt.Sprintf("clients-%d", len(c.Spec.Clients)), fmt.Sprintf("sconns-%d", c.Cfg.ServerConns))
	return nt, dedup(cls)
}

func c01Exec(c *c01Case) []Discrepancy {
	variant := ""
	if c.Gap {
		variant = "gap"
	}
	f := getFixtureV("C01", c.Cfg, 3, 0, variant)
	var ds []Discrepancy
	if c.Hung != nil {
		ds = c16Run(f, c.Hung)
		for i := range ds {
			ds[i].Sig = "C01/with-timeouts-" + strings.TrimPrefix(ds[i].Sig, "C16/")
		}
	} else if len(c.Spec.Clients) == 1 && len(c.Spec.Clients[0].Phases) > 0 {
		rc := &refCtx{Password: c.Cfg.Password, MaxLen: c.Cfg.MaxLen, Owners: f.Owners}
		exp := expectedFor(&c.Spec.Clients[0], indexPlans(&c.Spec), rc)
		res := runPhased(f, &c.Spec, len(exp))
		if ds = f.checkAlive("C01", nil); len(ds) == 0 {
			ds = compareReplies("C01", 0, &res.Clients[0], exp, ds)
		}
	} else {
		ds = pipeRunCompare("C01", f, &c.Cfg, &c.Spec, 25*time.Millisecond)
	}
	if len(ds) > 0 {
		dropFixture(f)
	}
	return ds
}

// pipeRunCompare runs a PipeSpec and compares every client's reply sequence with the reference; quiet is how
// long to listen for stray bytes after the last expected reply.
func pipeRunCompare(prop string, f *Fixture, cfg *sut.Config, spec *PipeSpec, quiet time.Duration) []Discrepancy {
	rc := &refCtx{Password: cfg.Password, MaxLen: cfg.MaxLen, Owners: f.Owners}
	pi := indexPlans(spec)
	exps := make([][]Expect, len(spec.Clients))
	want := make([]int, len(spec.Clients))
	for i := range spec.Clients {
		exps[i] = expectedFor(&spec.Clients[i], pi, rc)
		want[i] = len(exps[i])
	}
	res := runPipesQuiet(f, spec, want, time.Duration(envInt("VERIF_DEADLINE_S", 8))*time.Second, quiet, exps)
	f.LastLog = res.Log
	if os.Getenv("VERIF_DUMP_LOG") != "" {
		for _, lr := range res.Log {
			fmt.Printf("    backend log: node %d conn %d asking=%v %s\n", lr.Node, lr.Conn, lr.Asking, q(lr.Raw))
		}
		for i := range res.Clients {
			for j, r := range res.Clients[i].Replies {
				fmt.Printf("    client %d reply %d: %s\n", i, j+1, q(r))
			}
		}
	}
	var ds []Discrepancy
	ds = f.checkAlive(prop, ds)
	if len(ds) > 0 {
		return ds
	}
	for i := range spec.Clients {
		ds = compareReplies(prop, i, &res.Clients[i], exps[i], ds)
		if n := len(exps[i]); n > 0 && exps[i][n-1].Closes && len(res.Clients[i].Replies) == n && !res.Clients[i].EOF {
			ds = append(ds, disc(prop+"/quit-not-closed", "client %d: connection still open after the reply to QUIT", i))
		}
		if n := len(exps[i]); n > 0 && !exps[i][n-1].Closes && res.Clients[i].EOF && len(res.Clients[i].Replies) == n {
			ds = append(ds, disc(prop+"/closed-unexpectedly", "client %d: the proxy closed the connection after answering everything", i))
		}
	}
	if pe := f.Cluster.ProtoErrors(); len(pe) > 0 {
		ds = append(ds, disc(prop+"/backend-protocol-error", "backend node %d got malformed bytes: %s (%s)", pe[0].Node, q(pe[0].Head), pe[0].Why))
	}
	return ds
}

func init() {
	registerReplay("C01", func(raw json.RawMessage) ([]Discrepancy, error) {
		var c c01Case
		if err := json.Unmarshal(raw, &c); err != nil {
			return nil, err
		}
		return c01Exec(&c), nil
	})
}

func TestC01(t *testing.T) {
	rec := evidence.For("C01")
	rapidCheck(t, func(t *rapid.T) {
		c := c01Gen(t)
		nt, cls := c01Classify(&c)
		rec.Case(&c, nt, cls...)
		report(t, "C01", &c, c01Exec(&c))
	})
}

var _ = refmodel.KeySlot
