package checks

import (
	"bytes"
	"encoding/json"
	"fmt"
	"regexp"
	"strconv"
	"testing"
	"time"

	"pgregory.net/rapid"

	"verifharness/evidence"
	"verifharness/refmodel"
	"verifharness/sut"
)

// C10: with one connection per backend node, the requests and fragments one client connection causes to be
// sent to a node arrive there in the order the client sent them; hence SET k v; GET k (both at the master)
// observes the write.

type c10Case struct {
	Cfg       sut.Config `json:"cfg"`
	Spec      PipeSpec   `json:"spec"`
	KillFirst bool       `json:"kill_backend_conns_first,omitempty"` // the nodes drop their connections right before the case: the first requests find a cold pool
	// NodePause > 0: the nodes stop reading for this many ms while one client pipelines big writes to one node
	// (4 KiB socket buffers on both sides): the proxy's writes to the node are partial
	NodePause int `json:"node_pause_ms,omitempty"`
}

var c10Token = regexp.MustCompile(`c(\d+)r(\d+)k\d+`)

func c10Gen(t *rapid.T) c10Case {
	var c c10Case
	c.Cfg = rapid.SampledFrom(shardPick([]sut.Config{{ServerConns: 1}, {ServerConns: 1, DisableSlave: true}, {ServerConns: 1, Password: "pw"}, {ServerConns: 1, DisableSlave: true, Password: "pw2"}}, 2)).Draw(t, "cfg")
	if rapid.IntRange(0, 15).Draw(t, "backedup") == 0 {
		c.Cfg = sut.Config{ServerConns: 1, DisableSlave: true, SndBuf: 4096}
		c.NodePause = rapid.SampledFrom([]int{20, 50, 90}).Draw(t, "pause")
		slot := rapid.SampledFrom([]int{100, 6000, 12000}).Draw(t, "slot")
		n := rapid.IntRange(8, 40).Draw(t, "nbig")
		sz := rapid.SampledFrom([]int{1500, 3000, 9000}).Draw(t, "valsize")
		if n*sz > 120000 {
			n = 120000 / sz // a 4 KiB window moves only tens of KB per second
		}
		var cs ClientSpec
		for i := 0; i < n; i++ {
			seed := []byte(fmt.Sprintf("<%d>", i))
			cs.Reqs = append(cs.Reqs, Req{Name: Bin("set"), Args: []Bin{keyFor(slot+i%3, 0, i, 0), Bin(bytes.Repeat(seed, sz/len(seed)))}})
		}
		k := keyFor(slot, 0, 900, 0)
		v := Bin("written-last")
		cs.Reqs = append(cs.Reqs, Req{Name: Bin("SET"), Args: []Bin{k, v}}, Req{Name: Bin("GET"), Args: []Bin{k}})
		c.Spec.Values = []Value{{Key: k, Val: v, Store: true}}
		c.Spec.Clients = []ClientSpec{cs}
		return c
	}
	c.KillFirst = rapid.IntRange(0, 2).Draw(t, "killfirst") == 0
	// concentrate on 1-3 nodes
	nodeSlots := [][]int{{0, 1, 100, 5460}, {5461, 5462, 8000, 10922}, {10923, 12000, 16383}}
	nn := rapid.IntRange(1, 3).Draw(t, "nnodes")
	var slots []int
	for i := 0; i < nn; i++ {
		slots = append(slots, nodeSlots[(i+rapid.IntRange(0, 2).Draw(t, "rot"))%3]...)
	}
	o := pipeOpts{MaxReqs: 30, Slots: slots, Multi: true, MaxKeys: 6, HoldPct: 40}
	nc := rapid.IntRange(1, 6).Draw(t, "nclients")
	for ci := 0; ci < nc; ci++ {
		cs := genClientPipe(t, ci, o, &c.Spec.Plans)
		// SET k v ... GET k pairs on a key of their own
		if c.Cfg.DisableSlave && rapid.Bool().Draw(t, "setget") {
			k := keyFor(rapid.SampledFrom(slots).Draw(t, "sgslot"), ci, 900, 0)
			v := Bin(fmt.Sprintf("written-by-c%d", ci))
			at := rapid.IntRange(0, len(cs.Reqs)).Draw(t, "sgat")
			pair := []Req{{Name: Bin("SET"), Args: []Bin{k, v}}, {Name: Bin("GET"), Args: []Bin{k}}}
			cs.Reqs = append(cs.Reqs[:at], append(pair, cs.Reqs[at:]...)...)
			c.Spec.Values = append(c.Spec.Values, Value{Key: k, Val: v, Store: true})
		}
		c.Spec.Clients = append(c.Spec.Clients, cs)
	}
	if c.Cfg.DisableSlave && rapid.IntRange(0, 3).Draw(t, "movedpair") == 0 {
		// a key whose slot has moved to another node (the proxy's table is stale): two writes in one segment, a
		// pause, then the read; the old owner's redirections come back one after the other
		ci := len(c.Spec.Clients)
		slot := rapid.SampledFrom([]int{3000, 9000, 14000}).Draw(t, "movedslot")
		to := (slot/5461 + 1 + rapid.IntRange(0, 1).Draw(t, "movedto")) % 3
		k := keyFor(slot, ci, 950, 0)
		v1, v2 := Bin(fmt.Sprintf("first-by-c%d", ci)), Bin(fmt.Sprintf("second-by-c%d", ci))
		s1 := Req{Name: Bin("SET"), Args: []Bin{k, v1}}
		s2 := Req{Name: Bin("SET"), Args: []Bin{k, v2}}
		cs := ClientSpec{Reqs: []Req{s1, s2, {Name: Bin("GET"), Args: []Bin{k}}}}
		cs.Cuts = []int{len(s1.Encode()) + len(s2.Encode())}
		cs.PauseUs = rapid.SampledFrom([]int{2000, 10000, 25000}).Draw(t, "movedpause")
		c.Spec.Clients = append(c.Spec.Clients, cs)
		c.Spec.Values = append(c.Spec.Values, Value{Key: k, Val: v2, Store: true})
		c.Spec.Moved = []SlotNode{{Slot: slot, Node: to}}
		c.Spec.RedirDelayMs = rapid.SampledFrom([]int{0, 5}).Draw(t, "moveddelay")
		c.Spec.RedirStagger = rapid.SampledFrom([]int{0, 15, 40}).Draw(t, "movedstagger")
	}
	nh := 0
	for _, p := range c.Spec.Plans {
		if p.Hold {
			nh++
		}
	}
	c.Spec.Schedule = genSchedule(t, nh)
	c.Spec.GapUs = rapid.SampledFrom([]int{0, 200}).Draw(t, "gapus")
	return c
}

func c10Exec(c *c10Case) []Discrepancy {
	f := getFixture("C10", c.Cfg, 3, 1)
	if c.Cfg.SndBuf > 0 && !f.smallRecv {
		f.Cluster.SetRecvBuf(4096)
		f.Cluster.CloseDataConns(-1, false)
		time.Sleep(30 * time.Millisecond)
		f.smallRecv = true
	}
	if c.NodePause > 0 {
		f.Cluster.PauseReads(time.Duration(c.NodePause) * time.Millisecond)
	}
	ds := c10Run(f, c)
	if len(ds) > 0 {
		dropFixture(f)
	}
	return ds
}

func c10Run(f *Fixture, c *c10Case) []Discrepancy {
	if c.KillFirst {
		f.Cluster.CloseDataConns(-1, false)
		time.Sleep(15 * time.Millisecond) // let the proxy notice; the next request re-dials (handshake still pending)
	}
	// the store semantics for the SET/GET pairs: GET returns what SET wrote only if SET arrived first
	spec := stampSpec(&c.Spec, f.Nonce())
	if n := len(spec.Clients); len(spec.Moved) > 0 && len(spec.Clients[n-1].Reqs) == 3 {
		// the moved-slot client: the cut falls right behind its two writes (their keys just grew by the nonce)
		cs := &spec.Clients[n-1]
		cs.Cuts = []int{len(cs.Reqs[0].Encode()) + len(cs.Reqs[1].Encode())}
	}
	ds := pipeRunCompare("C10", f, &c.Cfg, spec, 0)
	if len(ds) > 0 {
		return ds
	}
	// per (client, node): the node's log restricted to the client's tokens is in client sequence order
	type cn struct{ c, n int }
	last := map[cn]int{}
	for _, lr := range f.LastLog {
		ks := keysOf(lr.Name, lr.Args)
		if len(ks) == 0 {
			continue
		}
		m := c10Token.FindSubmatch(ks[0])
		if m == nil {
			continue
		}
		ci, _ := strconv.Atoi(string(m[1]))
		ri, _ := strconv.Atoi(string(m[2]))
		if ri >= 900 {
			continue // the SET/GET pairs are judged by value
		}
		k := cn{ci, lr.Node}
		if prev, ok := last[k]; ok && ri < prev {
			ds = append(ds, disc("C10/out-of-order-at-node", "node %d received request %d of client %d after its request %d (%s)", lr.Node, ri, ci, prev, q(lr.Raw)))
			return ds
		}
		last[k] = ri
	}
	return ds
}

func c10Classify(c *c10Case) (bool, []string) {
	var cls []string
	mixed := false
	for ci := range c.Spec.Clients {
		s, m := false, false
		for ri := range c.Spec.Clients[ci].Reqs {
			if refmodel.MultiKey(c.Spec.Clients[ci].Reqs[ri].lname()) {
				m = true
			} else {
				s = true
			}
		}
		if s && m {
			mixed = true
		}
	}
	if mixed {
		cls = append(cls, "pipeline-mixes-singles-and-splits")
	}
	if len(c.Spec.Values) > 0 {
		cls = append(cls, "set-get-pair")
	}
	if c.KillFirst {
		cls = append(cls, "cold-pool")
	}
	if c.NodePause > 0 {
		cls = append(cls, "node-not-reading-while-big-writes-are-pipelined")
	}
	if len(c.Spec.Moved) > 0 {
		cls = append(cls, "writes-then-read-on-a-moved-slot")
	}
	if c.Cfg.Password != "" {
		cls = append(cls, "password")
	}
	cls = append(cls, fmt.Sprintf("clients-%d", len(c.Spec.Clients)))
	return len(c.Spec.Clients) >= 2 && mixed, cls
}

func init() {
	registerReplay("C10", func(raw json.RawMessage) ([]Discrepancy, error) {
		var c c10Case
		if err := json.Unmarshal(raw, &c); err != nil {
			return nil, err
		}
		return c10Exec(&c), nil
	})
}

func TestC10(t *testing.T) {
	rec := evidence.For("C10")
	rapidCheck(t, func(t *rapid.T) {
		c := c10Gen(t)
		nt, cls := c10Classify(&c)
		rec.Case(&c, nt, cls...)
		report(t, "C10", &c, c10Exec(&c))
	})
}
