package checks

import (
	"os"
	"strings"
	"bytes"
	"encoding/json"
	"fmt"
	"sync"
	"testing"
	"time"

	"pgregory.net/rapid"

	"verifharness/evidence"
	"verifharness/fakecluster"
	"verifharness/rclient"
	"verifharness/refmodel"
	"verifharness/sut"
)

// C12: whatever bytes a client sends, the proxy keeps running and keeps serving every other connection; the
// offending connection is answered with an error or closed; nothing malformed reaches a backend.

type c12Case struct {
	Cfg    sut.Config `json:"cfg"`
	Stream Bin        `json:"stream"`
	Cuts   []int      `json:"cuts,omitempty"`
	Pause  int        `json:"pause_us,omitempty"`
	// Unread > 0: before the stream, the offender asks for this many 256 KB values and does not read them (receive
	// buffer 64 KiB; only with streams that end in an offence): when the proxy closes it, replies are still waiting in the proxy's buffers for a peer that is
	// alive but not reading. The offender starts reading 50 ms after its last byte.
	Unread int `json:"unread_big_replies,omitempty"`
}

var c12Hostile = []string{
	"*0\r\n", "*-1\r\n", "*-5\r\n", "*\r\n", "*+1\r\n$4\r\nPING\r\n", "*01\r\n$4\r\nPING\r\n", "* 1\r\n$4\r\nPING\r\n", "*1 \r\n$4\r\nPING\r\n",
	"*99999999999999999999\r\n", "*4294967297\r\n$4\r\nPING\r\n", "*18446744073709551617\r\n", "*1048577\r\n", "*2147483648\r\n$3\r\nget\r\n",
	"*2\r\n$3\r\nget\r\n$-1\r\n", "*2\r\n$3\r\nget\r\n$-2\r\n", "*2\r\n$3\r\nget\r\n$01\r\na\r\n", "*2\r\n$3\r\nget\r\n$+1\r\na\r\n", "*2\r\n$03\r\nget\r\n$1\r\na\r\n",
	"*2\r\n$3\r\nget\r\n$99999999999999999999\r\n", "*2\r\n$3\r\nget\r\n$4294967297\r\na\r\n", "*2\r\n$3\r\nget\r\n$536870913\r\n",
	"*1\r\n\r\n", "\r\n", "\n", "*1\n$4\nPING\n", "*1\r\n$4\r\nPINGXX", "*1\r\n$4\r\nPING\n\n", "*1\r\n$4\rPING\r\n", "*1\r$4\r\nPING\r\n",
	"*2\r\n$3\r\nget\r\n:1\r\n", "*2\r\n$3\r\nget\r\n+a\r\n", "*1\r\n*1\r\n$4\r\nPING\r\n", "$4\r\nPING\r\n", "+PING\r\n", "-ERR\r\n", ":1\r\n",
	"PING\r\n", "GET a\r\n", "get \"unbalanced\r\n", "QUIT\r\n", "\x00\x00\x00\x00\r\n", "GET / HTTP/1.1\r\nHost: x\r\n\r\n", "*1\r\n$4\r\n\xff\xfe\xfd\xfc\r\n",
	"*3\r\n$3\r\nset\r\n$1\r\na\r\n", "*2\r\n$3\r\nget\r\n$1\r\n", "*", "*1", "*1\r", "*2\r\n$", "*2\r\n$3\r\nge",
	"*2\r\n$3\r\nget\r\n$-0\r\n\r\n", "*2\r\n$3\r\nget\r\n$-00\r\n\r\n", "*3\r\n$3\r\nset\r\n$1\r\nk\r\n$-0\r\n\r\n", "*-0\r\n", "*2\r\n$-0\r\n\r\n$1\r\na\r\n", "*2\r\n$3\r\nget\r\n$+0\r\n\r\n", "*2\r\n$3\r\nget\r\n$00\r\n\r\n",
}

// c12NastyNumbers are strings put where a count or a length belongs.
var c12NastyNumbers = []string{"-0", "-00", "+0", "00", "000", "01", "-01", "+1", "-1", "-2", " 1", "1 ", "\t1", "0x1", "0X10", "1e1", "1.0", "1_0", "",
	"-", "+", "--1", "4294967296", "4294967297", "2147483648", "9223372036854775807", "9223372036854775808", "-9223372036854775808",
	"18446744073709551616", "18446744073709551617", "99999999999999999999", "1048576", "1048577", "536870912", "536870913", "\xd9\xa1", "1\x00", "\x001"}

// c12NumberSwap replaces one count or length field of a valid request by a nasty number.
func c12NumberSwap(t *rapid.T, v []byte) []byte {
	var fields [][2]int // start, end of each number after '*' or '$'
	for i := 0; i < len(v); i++ {
		if (v[i] == '*' || v[i] == '$') && (i == 0 || v[i-1] == '\n') {
			j := i + 1
			for j < len(v) && v[j] != '\r' {
				j++
			}
			fields = append(fields, [2]int{i + 1, j})
		}
	}
	if len(fields) == 0 {
		return v
	}
	f := fields[rapid.IntRange(0, len(fields)-1).Draw(t, "field")]
	n := rapid.SampledFrom(c12NastyNumbers).Draw(t, "nasty")
	out := append([]byte{}, v[:f[0]]...)
	out = append(out, n...)
	return append(out, v[f[1]:]...)
}

func c12ValidReq(t *rapid.T, i int) []byte {
	switch rapid.IntRange(0, 3).Draw(t, "vkind") {
	case 0:
		return refmodel.EncodeCmdS("PING")
	case 1:
		return refmodel.EncodeCmdS("set", refmodel.KeyInSlot(rapid.SampledFrom(defaultSlots).Draw(t, "slot"), fmt.Sprintf("off%d", i)), "v")
	default:
		return refmodel.EncodeCmdS("get", refmodel.KeyInSlot(rapid.SampledFrom(defaultSlots).Draw(t, "slot"), fmt.Sprintf("off%d", i)))
	}
}

// c12Sizes are lengths around the buffer and limit sizes found in network code.
var c12Sizes = []int{255, 256, 257, 1023, 1024, 1025, 4095, 4096, 4097, 5000, 8191, 8192, 8193, 16385, 40000, 65535, 65536, 65537, 70000}

// c12BigOffence draws an offence that is large, or has a large amount of pipelined data behind it.
func c12BigOffence(t *rapid.T, max int) []byte {
	n := rapid.SampledFrom(c12Sizes).Draw(t, "bigsize") + rapid.IntRange(-2, 2).Draw(t, "bigadj")
	if n > max {
		n = max - rapid.IntRange(0, 900).Draw(t, "bigcap") // tiny read buffers make long inputs quadratic
	}
	fill := bytes.Repeat([]byte{rapid.SampledFrom([]byte("ax0 $*\x00\xff")).Draw(t, "bigfill")}, n)
	switch rapid.IntRange(0, 4).Draw(t, "bigkind") {
	case 0: // one long line that is no RESP
		return append(append([]byte("!"), fill...), '\r', '\n')
	case 1: // a bulk of that length with a bad terminator
		out := []byte(fmt.Sprintf("*2\r\n$3\r\nGET\r\n$%d\r\n", n))
		out = append(out, fill...)
		return append(out, rapid.SampledFrom([]string{"XY", "\n\r", "\r\r", "\nX"}).Draw(t, "badterm")...)
	case 2: // a short offence with that much valid data pipelined behind it
		out := []byte(rapid.SampledFrom(c12Hostile).Draw(t, "bighostile"))
		return append(out, refmodel.EncodeCmd([]byte("set"), []byte(refmodel.KeyInSlot(100, "bigtail")), fill)...)
	case 3: // a long unterminated line (an inline command that never ends)
		return fill
	default: // a wrong byte where the next argument header belongs, after a big valid argument
		out := []byte(fmt.Sprintf("*3\r\n$3\r\nSET\r\n$%d\r\n", n))
		out = append(out, fill...)
		return append(out, "\r\n?1\r\nv\r\n"...)
	}
}

func c12Gen(t *rapid.T) c12Case {
	var c c12Case
	c.Cfg = rapid.SampledFrom(shardPick([]sut.Config{{}, {BufCap: 7}, {MaxLen: 300}, {BufCap: 1}, {ServerConns: 2}, {BufCap: 64}}, 2)).Draw(t, "cfg")
	var stream []byte
	nvalid := rapid.IntRange(0, 4).Draw(t, "nvalid")
	for i := 0; i < nvalid; i++ {
		stream = append(stream, c12ValidReq(t, i)...)
	}
	switch rapid.IntRange(0, 7).Draw(t, "offence") {
	case 7:
		max := 70002
		if c.Cfg.BufCap > 0 && c.Cfg.BufCap < 64 {
			max = 5000
		}
		stream = append(stream, c12BigOffence(t, max)...)
	case 6:
		stream = append(stream, c12NumberSwap(t, c12ValidReq(t, 98))...)
	case 0, 1:
		stream = append(stream, rapid.SampledFrom(c12Hostile).Draw(t, "hostile")...)
	case 2:
		// mutate a valid request: flip, drop, insert or overwrite bytes
		v := append([]byte{}, c12ValidReq(t, 99)...)
		nm := rapid.IntRange(1, 3).Draw(t, "nmut")
		for k := 0; k < nm && len(v) > 0; k++ {
			pos := rapid.IntRange(0, len(v)-1).Draw(t, "pos")
			switch rapid.IntRange(0, 4).Draw(t, "mutkind") {
			case 0:
				v = append(v[:pos], v[pos+1:]...)
			case 1:
				v = append(v[:pos], append([]byte{rapid.SampledFrom([]byte("\r\n*$-+:0 9x")).Draw(t, "ins")}, v[pos:]...)...)
			case 2:
				v[pos] = rapid.Byte().Draw(t, "ovw")
			case 3:
				v = v[:pos]
			default:
				v = append(v[:pos], append([]byte(fmt.Sprint(rapid.SampledFrom([]int64{-1, 0, 3000000000, 99999999999, 1 << 62}).Draw(t, "num"))), v[pos:]...)...)
			}
		}
		stream = append(stream, v...)
	case 3:
		stream = append(stream, rapid.SliceOfN(rapid.Byte(), 1, 60).Draw(t, "random")...)
	case 4:
		stream = append(stream, rapid.SliceOfN(rapid.SampledFrom([]byte("*$\r\n0123-+ :ab")), 1, 40).Draw(t, "respish")...)
	default:
		// nothing offending: a purely valid stream
	}
	if rapid.Bool().Draw(t, "tail") {
		stream = append(stream, c12ValidReq(t, 50)...)
	}
	if len(stream) == 0 {
		stream = []byte("\r\n")
	}
	if c.Cfg.BufCap == 0 && rapid.IntRange(0, 15).Draw(t, "unread") == 0 {
		c.Unread = rapid.IntRange(24, 48).Draw(t, "nunread")
	}
	c.Stream = stream
	c.Cuts = genCuts(len(stream)).Draw(t, "cuts")
	if len(c.Cuts) > 0 {
		c.Pause = rapid.SampledFrom([]int{0, 200, 1000}).Draw(t, "pause")
	}
	return c
}

// bystander keeps doing tokened round trips on one connection while the offender talks.
type bystander struct {
	mu   sync.Mutex
	errs []string
	n    int
	stop chan struct{}
	done chan struct{}
}

func startBystander(f *Fixture, tag string) *bystander {
	b := &bystander{stop: make(chan struct{}), done: make(chan struct{})}
	go func() {
		defer close(b.done)
		cl, err := rclient.Dial(f.Proxy.Addr(), "")
		if err != nil {
			b.fail("bystander cannot connect: %v", err)
			return
		}
		defer cl.Close()
		for i := 0; ; i++ {
			select {
			case <-b.stop:
				return
			default:
			}
			slot := defaultSlots[i%len(defaultSlots)]
			key := refmodel.KeyInSlot(slot, fmt.Sprintf("by%s.%d", tag, i))
			req := refmodel.EncodeCmdS("set", key, "b")
			want := refmodel.Bulk(fakecluster.EchoValue("set", key))
			if i%3 == 2 {
				// every third round trip is a request split over two slots
				k2 := refmodel.KeyInSlot(defaultSlots[(i+5)%len(defaultSlots)], fmt.Sprintf("by%s.%d.b", tag, i))
				req = refmodel.EncodeCmdS("mget", key, k2)
				want = refmodel.Array(refmodel.Bulk(fakecluster.EchoValue("mget", key)), refmodel.Bulk(fakecluster.EchoValue("mget", k2)))
			}
			if err := cl.Write(req); err != nil {
				b.fail("bystander write failed on round trip %d: %v", i, err)
				return
			}
			if !cl.WaitReplies(i+1, 6*time.Second) {
				// slow is not wrong: as long as the proxy lives and the connection is intact, keep waiting (bounded);
				// only a reply that never comes is a disturbance
				evidence.For("C12").Add("bystander_round_trips_slower_than_6s", 1)
				if !cl.WaitReplies(i+1, 60*time.Second) {
					st := cl.Snapshot()
					b.fail("bystander round trip %d got no reply within 66 s (eof=%v, malformed=%v)", i, st.EOF, st.BadResp)
					return
				}
			}
			got := cl.Snapshot().Replies[i].Raw
			if !bytes.Equal(got, want) {
				b.fail("bystander round trip %d: got %s want %s", i, q(got), q(want))
				return
			}
			b.mu.Lock()
			b.n++
			b.mu.Unlock()
			time.Sleep(500 * time.Microsecond)
		}
	}()
	return b
}

func (b *bystander) fail(format string, a ...interface{}) {
	b.mu.Lock()
	b.errs = append(b.errs, fmt.Sprintf(format, a...))
	b.mu.Unlock()
}

func (b *bystander) finish() (int, []string) {
	close(b.stop)
	<-b.done
	b.mu.Lock()
	defer b.mu.Unlock()
	return b.n, b.errs
}

func c12Exec(c *c12Case) []Discrepancy {
	f := getFixture("C12", c.Cfg, 3, 0)
	ds := c12Run(f, c)
	if len(ds) > 0 {
		dropFixture(f)
	}
	return ds
}

func c12Run(f *Fixture, c *c12Case) []Discrepancy {
	var ds []Discrepancy
	reqs, rest, off, why := refmodel.ScanStream(c.Stream)
	f.Cluster.ResetLog()
	f.Cluster.SetHandler(nil)
	by := startBystander(f, f.Nonce())
	var cl *rclient.Client
	var err error
	unreadProbe := false
	if c.Unread > 0 && (rest == refmodel.ReqProtoError || rest == refmodel.ReqInline) {
		big := refmodel.Bulk(bytes.Repeat([]byte("unread-"), 256*1024/7))
		f.Cluster.SetHandler(func(req *fakecluster.Request) fakecluster.Action {
			if strings.Contains(req.Key(1), "}unread") {
				return fakecluster.Action{Reply: big}
			}
			return fakecluster.EchoHandler(req)
		})
		defer f.Cluster.SetHandler(nil)
		cl, err = rclient.DialNoRead(f.Proxy.Addr(), 65536)
		if err == nil {
			var asks []byte
			for i := 0; i < c.Unread; i++ {
				asks = append(asks, refmodel.EncodeCmdS("get", refmodel.KeyInSlot(defaultSlots[i%3*5], fmt.Sprintf("unread%d", i)))...)
			}
			cl.Write(asks)
			time.Sleep(400 * time.Millisecond) // the backends have answered; the replies sit in the proxy
			reqs, rest, off, why = refmodel.ScanStream(append(append([]byte{}, asks...), c.Stream...))
			unreadProbe = true
		}
	} else {
		cl, err = rclient.Dial(f.Proxy.Addr(), "")
	}
	if err != nil {
		by.finish()
		return append(f.checkAlive("C12", nil), disc("C12/cannot-connect", "cannot connect: %v", err))
	}
	werr := cl.WriteChunks(c.Stream, c.Cuts, time.Duration(c.Pause)*time.Microsecond)
	_ = werr // the proxy may close while we are still writing: that is one of the allowed outcomes
	offending := rest == refmodel.ReqProtoError || rest == refmodel.ReqInline
	resolved := func() (bool, string) {
		st := cl.Snapshot()
		if st.EOF {
			return true, "closed"
		}
		if st.BadResp != nil {
			return true, "malformed reply stream"
		}
		for _, r := range st.Replies {
			if isErrorReply(r.Raw) {
				return true, "error reply"
			}
		}
		return false, fmt.Sprintf("%d replies, open", len(st.Replies))
	}
	if unreadProbe {
		// the offender is alive but still not reading: everybody else must be served meanwhile
		time.Sleep(300 * time.Millisecond)
		if err := f.Witness(8 * time.Second); err != nil {
			// once more, generously, and only with a harness that is not itself starved: a proxy that is stuck
			// stays stuck for as long as the offender does not read
			err = f.Witness(30 * time.Second)
			if err != nil && !harnessStarvedWithin(40*time.Second) {
				ds = append(ds, disc("C12/bystander-disturbed", "while the proxy was closing an offender that had not read %d big replies and still was not reading, a fresh client was not served within 38 s: %v (offender sent %s after the unread requests)", c.Unread, err, q(c.Stream)))
			} else if err != nil {
				evidence.For("C12").Add("unread_offender_probes_discarded_machine_overloaded", 1)
			}
		}
		cl.StartReading()
		// the offender's fate (error reply or close) lies behind megabytes it now reads: wait while bytes arrive
		for last, idle := -1, time.Now(); time.Since(idle) < 10*time.Second; time.Sleep(20 * time.Millisecond) {
			if ok, _ := resolved(); ok {
				break
			}
			if t := cl.Snapshot().Total; t != last {
				last, idle = t, time.Now()
			}
		}
	}

	if offending {
		deadline := time.Now().Add(3 * time.Second)
		for time.Now().Before(deadline) {
			if ok, _ := resolved(); ok {
				break
			}
			time.Sleep(2 * time.Millisecond)
		}
		if ok, state := resolved(); !ok {
			// witness rule: only a responsive proxy that still ignores the offender is a violation
			t0 := time.Now()
			werr := f.Witness(10 * time.Second)
			if werr == nil && time.Since(t0) < 500*time.Millisecond {
				time.Sleep(500 * time.Millisecond)
				if ok2, _ := resolved(); !ok2 {
					ds = append(ds, disc("C12/offender-neither-answered-nor-closed", "the stream stops being valid at byte %d (%s); 3.5 s later the connection is neither closed nor answered with an error (%s); stream %s", off, why, state, q(c.Stream)))
				}
			} else if werr == nil {
				time.Sleep(15 * time.Second)
				if ok2, _ := resolved(); !ok2 {
					ds = append(ds, disc("C12/offender-neither-answered-nor-closed", "the stream stops being valid at byte %d (%s); 20 s later the connection is neither closed nor answered with an error (%s); stream %s", off, why, state, q(c.Stream)))
				}
			}
		}
	} else {
		// valid so far: the complete requests get their replies
		want := len(reqs)
		cl.WaitReplies(want, 5*time.Second)
		time.Sleep(3 * time.Millisecond)
		st := cl.Snapshot()
		if rest != refmodel.ReqEmpty {
			if st.BadResp != nil {
				ds = append(ds, disc("C12/malformed-reply-stream", "reply stream to a valid request stream is malformed: %v", st.BadResp))
			} else if len(st.Replies) != want && c.Cfg.MaxLen == 0 {
				ds = append(ds, disc("C12/valid-stream-miscounted", "a valid stream of %d complete requests (remainder: %d bytes, a proper prefix) got %d replies, eof=%v; stream %s", want, len(c.Stream)-off, len(st.Replies), st.EOF, q(c.Stream)))
			}
		}
	}
	if os.Getenv("VERIF_DUMP_LOG") != "" {
		st := cl.Snapshot()
		fmt.Printf("    offender: %d bytes received, %d replies, eof=%v badresp=%v\n", st.Total, len(st.Replies), st.EOF, st.BadResp)
	}
	cl.Close()
	time.Sleep(2 * time.Millisecond)
	n, errs := by.finish()
	ds = f.checkAlive("C12", ds)
	for _, e := range errs {
		ds = append(ds, disc("C12/bystander-disturbed", "%s (after %d good round trips; offender sent %s)", e, n, q(c.Stream)))
	}
	if n == 0 && len(errs) == 0 {
		// make sure the bystander did something
		if err := f.Witness(5 * time.Second); err != nil {
			ds = append(ds, disc("C12/bystander-disturbed", "witness after the case: %v", err))
		}
	}
	for _, pe := range f.Cluster.ProtoErrors() {
		ds = append(ds, disc("C12/malformed-at-backend", "backend node %d received bytes that are not a well-formed request (%s): %s; offender sent %s", pe.Node, pe.Why, q(pe.Head), q(c.Stream)))
		break
	}
	evidence.For("C12").Add("bystander_round_trips", n)
	return ds
}

func c12Classify(c *c12Case) (bool, []string) {
	reqs, rest, off, _ := refmodel.ScanStream(c.Stream)
	var cls []string
	nt := false
	switch rest {
	case refmodel.ReqProtoError:
		cls = append(cls, "protocol-error")
		nt = off > 0 || len(c.Stream) > 0
	case refmodel.ReqInline:
		cls = append(cls, "inline")
		nt = true
	case refmodel.ReqEmpty:
		cls = append(cls, "empty-multibulk")
		nt = true
	case refmodel.ReqNeedMore:
		cls = append(cls, "proper-prefix")
	default:
		cls = append(cls, "valid-stream")
	}
	if len(reqs) > 0 && rest != refmodel.ReqComplete {
		cls = append(cls, "valid-requests-then-offence")
	}
	if len(c.Cuts) > 0 {
		cls = append(cls, "segmented")
	}
	if c.Cfg.BufCap > 0 {
		cls = append(cls, fmt.Sprintf("bufcap-%d", c.Cfg.BufCap))
	}
	return nt, cls
}

func init() {
	registerReplay("C12", func(raw json.RawMessage) ([]Discrepancy, error) {
		var dc c12DecCase
		if err := json.Unmarshal(raw, &dc); err == nil && dc.Data != nil {
			return c12DecodeExec(dc.Data, 6<<20), nil
		}
		var c c12Case
		if err := json.Unmarshal(raw, &c); err != nil {
			return nil, err
		}
		return c12Exec(&c), nil
	})
}

func TestC12(t *testing.T) {
	rec := evidence.For("C12")
	rapidCheck(t, func(t *rapid.T) {
		c := c12Gen(t)
		nt, cls := c12Classify(&c)
		rec.Case(&c, nt, cls...)
		report(t, "C12", &c, c12Exec(&c))
	})
}
