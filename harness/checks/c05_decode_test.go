package checks

import (
	"strings"
	"fmt"
	"testing"

	"pgregory.net/rapid"

	"rcproxy/core"

	"verifharness/evidence"
	"verifharness/refmodel"
)

// Decoder half of C05: the slot the request decoder files a single-key request (or EVAL/EVALSHA) under is the
// specification's slot of the key as the client sent it - for keys of any length, with the hash tag anywhere.

type c05DecCase struct {
	Req Req `json:"req"`
}

func c05DecodeExec(r *Req) (ds []Discrepancy) {
	c12DecodeInit()
	defer func() {
		if p := recover(); p != nil {
			ds = append(ds, disc("C05/decoder-panic", "the request decoder panicked on a %s with a %d-byte key: %v", r.lname(), len(keyOfReq(r)), p))
		}
	}()
	data := r.Encode()
	rc := &core.CRespCodec{MsgMaxLength: 64 << 20}
	conn := &memConn{data: data}
	msg, err := rc.Decode(conn)
	if err != nil || msg == nil {
		return []Discrepancy{disc("C05/decoder-rejects-valid", "a valid %s with a %d-byte key was not decoded: %v", r.lname(), len(keyOfReq(r)), err)}
	}
	defer core.MsgPool.Put(msg)
	key := keyOfReq(r)
	want := refmodel.KeySlot(key)
	if len(msg.Body) != 1 {
		return []Discrepancy{disc("C05/request-slot", "%s with one key is filed under %d slots", r.lname(), len(msg.Body))}
	}
	for slot := range msg.Body {
		if int(slot) != want {
			return []Discrepancy{disc("C05/request-slot", "%s with the %d-byte key %s is filed under slot %d, the specification's slot is %d", r.lname(), len(key), q(key), slot, want)}
		}
	}
	return nil
}

// c05LongKeyGen draws keys whose interesting part lies beyond the first few hundred bytes.
func c05LongKeyGen() *rapid.Generator[[]byte] {
	return rapid.Custom(func(t *rapid.T) []byte {
		n := rapid.SampledFrom([]int{30, 62, 126, 254, 255, 256, 257, 510, 1022, 4094, 16382, 70000}).Draw(t, "prefixlen")
		n += rapid.IntRange(0, 3).Draw(t, "plus")
		fill := rapid.SampledFrom([]byte("ab}\x00\xff")).Draw(t, "fill")
		key := make([]byte, n)
		for i := range key {
			key[i] = fill
		}
		switch rapid.IntRange(0, 3).Draw(t, "tail") {
		case 0: // a hash tag after the filler
			key = append(key, '{')
			key = append(key, rapid.SliceOfN(rapid.Byte(), 0, 8).Draw(t, "tag")...)
			key = append(key, '}')
			key = append(key, rapid.SliceOfN(rapid.SampledFrom([]byte("xy{}")), 0, 5).Draw(t, "post")...)
		case 1: // the tag opens in the filler and closes late
			p := rapid.IntRange(0, n-1).Draw(t, "open")
			key[p] = '{'
			key = append(key, "tail}rest"...)
		case 2: // only the last bytes differ
			key = append(key, rapid.SliceOfN(rapid.Byte(), 1, 6).Draw(t, "suffix")...)
		default:
		}
		return key
	})
}

func TestC05Decode(t *testing.T) {
	rec := evidence.For("C05")
	names := docs.SingleKeyNames()
	rapidCheck(t, func(t *rapid.T) {
		if rapid.IntRange(0, 3).Draw(t, "multikey") == 0 {
			// MGET/DEL/MSET: every key must be filed under (and travel in the fragment of) its own specification slot
			r := genMultiKeyReq(t, 12, []string{"mget", "del", "mset"})
			slots, dup, multi := mkClassify(&r)
			c := c06DecCase{Req: r}
			rec.CaseKey(fnv64(r.Encode())^0x0506, slots >= 2 && (dup || multi), func() interface{} { return c }, "dec-multikey-request")
			ds := c06DecodeExec(&r)
			for i := range ds {
				ds[i].Sig = "C05/multikey-" + strings.TrimPrefix(ds[i].Sig, "C06/")
			}
			report(t, "C05", &c, ds)
			return
		}
		name := rapid.SampledFrom(names).Draw(t, "name")
		var key []byte
		if rapid.IntRange(0, 2).Draw(t, "long") == 0 {
			key = c05LongKeyGen().Draw(t, "longkey")
		} else {
			key = c05Gen().Draw(t, "key")
		}
		nargs := refmodel.ValidNargs(name, rapid.IntRange(0, 2).Draw(t, "extra"))
		r := Req{Name: genCaseName(name).Draw(t, "cased")}
		for a := 0; a < nargs; a++ {
			r.Args = append(r.Args, Bin(fmt.Sprintf("a%d", a)))
		}
		if name == "eval" || name == "evalsha" {
			r.Args[1] = Bin("1")
			r.Args[2] = Bin(key)
		} else {
			r.Args[0] = Bin(key)
		}
		nt, cls := c05NT(key)
		cls = append(cls, "dec-request")
		if len(key) > 256 {
			nt = true
			cls = append(cls, "dec-key-over-256-bytes")
		}
		c := c05DecCase{Req: r}
		rec.CaseKey(fnv64(r.Encode())^0x05, nt, func() interface{} { return c }, cls...)
		report(t, "C05", &c, c05DecodeExec(&r))
	})
}
