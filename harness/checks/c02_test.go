package checks

import (
	"bytes"
	"encoding/json"
	"fmt"
	"testing"
	"time"

	"pgregory.net/rapid"

	"verifharness/evidence"
	"verifharness/fakecluster"
	"verifharness/refmodel"
	"verifharness/sut"
)

// C02: single-key requests reach the owning backend byte-exact (modulo the letter case of the command
// name) and the backend's reply reaches the client byte-exact.

type c02Case struct {
	Cfg        sut.Config `json:"cfg"`
	Spec       PipeSpec   `json:"spec"`
	SlowReader bool       `json:"slow_reader,omitempty"`
	HoldHead   bool       `json:"hold_head,omitempty"`     // the first reply is held until the later ones are there: all replies are flushed in one vectored write
	NodePause  int        `json:"node_pause_ms,omitempty"` // the backends do not read for this long: requests are written to them in partial writes
}

var c02Configs = []sut.Config{
	{},
	{BufCap: 1, SndBuf: 4096},
	{Password: "s3cret", DisableSlave: true},
	{BufCap: 5, SndBuf: 4096},
	{MaxLen: 256 * 1024},
	{BufCap: 64, SndBuf: 4096},
	{ServerConns: 2, Password: "pw"},
	{BufCap: 2, SndBuf: 4096},
	{},
	{BufCap: 16, SndBuf: 4096},
	{BufCap: 3, SndBuf: 4096},
	{BufCap: 4096, SndBuf: 4096},
	{BufCap: 8, SndBuf: 4096},
}

// c02GenBackpressure draws the cases built to make the proxy's vectored writes partial: several replies flushed
// together to a client that is not reading, or several requests written together to a node that is not reading.
func c02GenBackpressure(t *rapid.T, cfgs []sut.Config) (c02Case, bool) {
	var withSnd []sut.Config
	for _, x := range cfgs {
		if x.SndBuf > 0 && x.BufCap >= 16 {
			withSnd = append(withSnd, x)
		}
	}
	if len(withSnd) == 0 {
		for _, x := range cfgs {
			if x.SndBuf > 0 {
				withSnd = append(withSnd, x)
			}
		}
	}
	if len(withSnd) == 0 {
		return c02Case{}, false
	}
	var c c02Case
	c.Cfg = rapid.SampledFrom(withSnd).Draw(t, "bpcfg")
	big := 12000
	if c.Cfg.BufCap < 16 {
		big = 2500 // a tiny read buffer makes big messages quadratic
	}
	toClient := rapid.Bool().Draw(t, "toclient")
	n := rapid.IntRange(2, 8).Draw(t, "bpn")
	cs := ClientSpec{}
	for i := 0; i < n; i++ {
		key := Bin(fmt.Sprintf("{bp}k%d-%s", i, rapid.StringMatching(`[a-z]{0,6}`).Draw(t, "ksfx")))
		if toClient && i > 0 {
			// the later requests live on other nodes than the held head, so their replies are complete
			// and waiting in the client's queue when the head is finally answered
			key = keyFor([]int{6000, 12000}[i%2], 0, i, 0)
		}
		if toClient {
			// small requests, big replies (the first one may be small so that the cut falls behind it)
			sz := rapid.IntRange(big/4, big).Draw(t, "repsize")
			if i == 0 && rapid.Bool().Draw(t, "smallhead") {
				sz = rapid.IntRange(1, 200).Draw(t, "headsize")
			}
			seed := rapid.SliceOfN(rapid.Byte(), 1, 8).Draw(t, "repseed")
			body := bytes.Repeat(seed, sz/len(seed)+1)[:sz]
			cs.Reqs = append(cs.Reqs, Req{Name: Bin("get"), Args: []Bin{key}})
			c.Spec.Plans = append(c.Spec.Plans, Plan{Key: key, Reply: refmodel.Bulk(body), Hold: i == 0})
		} else {
			// big requests to one node which is not reading for a while
			sz := rapid.IntRange(big/4, big).Draw(t, "reqsize")
			if i == 0 && rapid.Bool().Draw(t, "smallfirst") {
				sz = rapid.IntRange(1, 200).Draw(t, "firstsize")
			}
			vseed := rapid.SliceOfN(rapid.Byte(), 1, 8).Draw(t, "valseed")
			val := bytes.Repeat(vseed, sz/len(vseed)+1)[:sz]
			cs.Reqs = append(cs.Reqs, Req{Name: Bin("set"), Args: []Bin{key, val}})
		}
	}
	c.Spec.Clients = []ClientSpec{cs}
	if toClient {
		c.HoldHead, c.SlowReader = true, true
		c.Spec.Schedule = []int{0}
		c.Spec.HoldMs = 15
	} else {
		c.NodePause = rapid.SampledFrom([]int{20, 50}).Draw(t, "bppause")
		if rapid.Bool().Draw(t, "separate") {
			// each request in a write of its own: several write signals hit the same backed-up connection
			for i := range cs.Reqs {
				c.Spec.Clients[0].Cuts = append(c.Spec.Clients[0].Cuts, len(cs.Reqs[i].Encode()))
			}
			c.Spec.Clients[0].PauseUs = rapid.SampledFrom([]int{100, 500, 2000, 5000, 9000}).Draw(t, "seppause")
		}
	}
	return c, true
}

func c02Gen(t *rapid.T) c02Case {
	var c c02Case
	cfgs := shardPick(c02Configs, 3)
	mode := rapid.IntRange(0, 10).Draw(t, "mode")
	if mode < 3 {
		if bp, ok := c02GenBackpressure(t, cfgs); ok {
			return bp
		}
	}
	if mode == 10 {
		// replies pile up for a client that reads them in stages and keeps asking (see runPhased); only in the
		// shards whose configurations include a small send buffer with a read buffer that is not tiny
		for _, x := range cfgs {
			if x.SndBuf > 0 && x.BufCap >= 64 {
				c.Cfg = x
				cs, plans := genPhased(t, false)
				c.Spec.Clients = []ClientSpec{cs}
				c.Spec.Plans = plans
				return c
			}
		}
	}
	c.Cfg = rapid.SampledFrom(cfgs).Draw(t, "cfg")
	small := c.Cfg.BufCap > 0
	maxLong := 3000
	if c.Cfg.BufCap >= 16 {
		maxLong = 12000
	}
	if !small {
		maxLong = rapid.SampledFrom([]int{2000, 70000, 300000}).Draw(t, "maxlong")
	} else if c.Cfg.BufCap >= 64 {
		maxLong = 20000
	}
	if thorough() && !small && rapid.IntRange(0, 40).Draw(t, "huge") == 0 {
		maxLong = 3 << 20
	}
	names := docs.SingleKeyNames()
	n := rapid.IntRange(1, 4).Draw(t, "nreq")
	cs := ClientSpec{}
	total := 0
	for i := 0; i < n; i++ {
		name := rapid.SampledFrom(names).Draw(t, "name")
		nargs := refmodel.ValidNargs(name, rapid.IntRange(0, 3).Draw(t, "extra"))
		r := Req{Name: genCaseName(name).Draw(t, "cased")}
		for a := 0; a < nargs; a++ {
			r.Args = append(r.Args, genArg(maxLong).Draw(t, "arg"))
		}
		if name == "eval" || name == "evalsha" {
			r.Args[1] = Bin("1")
		}
		total += len(r.Encode())
		limit := c.Cfg.MaxLen
		if limit == 0 {
			limit = 6 << 20
		}
		if len(r.Encode()) > limit {
			// keep every request within the configured size limit (C17 covers the other side)
			r.Args = r.Args[:1]
			r.Args[0] = Bin("k")
			for len(r.Args) < nargs {
				r.Args = append(r.Args, Bin("1"))
			}
		}
		cs.Reqs = append(cs.Reqs, r)
		key := keyOfReq(&r)
		rep := genReplyTree(maxLong, 3).Draw(t, "reply")
		if c.Cfg.MaxLen > 0 && len(rep) > c.Cfg.MaxLen {
			rep = refmodel.Bulk([]byte("trimmed"))
		}
		// one plan per key: a repeated key keeps its first plan
		dup := false
		for _, p := range c.Spec.Plans {
			if bytes.Equal(p.Key, key) {
				dup = true
			}
		}
		if !dup {
			c.Spec.Plans = append(c.Spec.Plans, Plan{Key: key, Reply: rep})
		}
	}
	cs.Cuts = genCuts(total).Draw(t, "cuts")
	if len(cs.Cuts) > 0 {
		cs.PauseUs = rapid.SampledFrom([]int{0, 0, 50, 300}).Draw(t, "pause")
	}
	c.Spec.Clients = []ClientSpec{cs}
	c.SlowReader = rapid.IntRange(0, 5).Draw(t, "slow") == 0
	c.Spec.Abandoned = genAbandoned(t)
	if !c.SlowReader && rapid.IntRange(0, 4).Draw(t, "movedslots") == 0 {
		// the slots of one or two requests have moved: the old owner answers -MOVED and the request is sent again,
		// byte for byte, to the node that was named
		for k := rapid.IntRange(1, 2).Draw(t, "nmoved"); k > 0; k-- {
			r := &cs.Reqs[rapid.IntRange(0, len(cs.Reqs)-1).Draw(t, "movedreq")]
			slot := refmodel.KeySlot(keyOfReq(r))
			dup := false
			for _, m := range c.Spec.Moved {
				if m.Slot == slot {
					dup = true
				}
			}
			if !dup {
				c.Spec.Moved = append(c.Spec.Moved, SlotNode{Slot: slot, Node: (c13NodeOf(slot) + 1 + rapid.IntRange(0, 1).Draw(t, "movedto")) % 3})
			}
		}
	}
	if n >= 2 && rapid.IntRange(0, 2).Draw(t, "holdhead") == 0 {
		c.HoldHead = true
		k0 := keyOfReq(&c.Spec.Clients[0].Reqs[0])
		for i := range c.Spec.Plans {
			if bytes.Equal(c.Spec.Plans[i].Key, k0) {
				c.Spec.Plans[i].Hold = true
			}
		}
		c.Spec.Schedule = []int{0}
		c.Spec.HoldMs = 15
	}
	if c.Cfg.SndBuf > 0 && rapid.IntRange(0, 2).Draw(t, "nodepause") == 0 {
		c.NodePause = rapid.SampledFrom([]int{10, 30, 60}).Draw(t, "pausems")
	}
	return c
}

func keyOfReq(r *Req) Bin {
	name := r.lname()
	if (name == "eval" || name == "evalsha") && len(r.Args) > 2 {
		return r.Args[2]
	}
	if len(r.Args) > 0 {
		return r.Args[0]
	}
	return nil
}

func c02Classify(c *c02Case) (bool, []string) {
	nt := false
	var cls []string
	for _, r := range c.Spec.Clients[0].Reqs {
		for _, a := range r.Args {
			ac := argClasses(a)
			for _, x := range ac {
				if x == "arg-empty" || x == "arg-crlf" || x == "arg-binary" {
					nt = true
				}
			}
			cls = append(cls, ac...)
		}
	}
	for _, p := range c.Spec.Plans {
		rc := replyClasses(p.Reply)
		for _, x := range rc {
			if x == "reply-nested-array" || x == "reply-null" || x == "reply-large" || x == "reply-array" {
				nt = true
			}
		}
		cls = append(cls, rc...)
	}
	if len(c.Spec.Clients[0].Cuts) > 0 {
		nt = true
		cls = append(cls, "segmented")
	}
	if c.SlowReader {
		nt = true
		cls = append(cls, "slow-reader")
	}
	if c.Cfg.BufCap > 0 {
		cls = append(cls, fmt.Sprintf("bufcap-%d", c.Cfg.BufCap))
	}
	if c.HoldHead {
		nt = true
		cls = append(cls, "replies-flushed-together")
		if c.SlowReader {
			cls = append(cls, "replies-flushed-together-to-slow-reader")
		}
	}
	if c.NodePause > 0 {
		nt = true
		cls = append(cls, "backend-not-reading")
	}
	if len(c.Spec.Clients[0].Phases) > 1 {
		nt = true
		cls = append(cls, "backlog-read-in-part-then-more-requests")
	}
	if len(c.Spec.Moved) > 0 {
		nt = true
		cls = append(cls, "request-sent-again-after-moved")
	}
	if len(c.Spec.Abandoned) > 0 {
		cls = append(cls, "after-clients-that-left-mid-request")
	}
	if c.Cfg.Password != "" {
		cls = append(cls, "password")
	}
	return nt, dedup(cls)
}

func dedup(in []string) []string {
	seen := map[string]bool{}
	var out []string
	for _, s := range in {
		if !seen[s] {
			seen[s] = true
			out = append(out, s)
		}
	}
	return out
}

func c02Exec(c *c02Case) []Discrepancy {
	f := getFixture("C02", c.Cfg, 3, 1)
	if c.Cfg.SndBuf > 0 && !f.smallRecv {
		// small socket buffers on the backend side too, so that the proxy's writes to a busy node are partial
		f.Cluster.SetRecvBuf(4096)
		f.Cluster.CloseDataConns(-1, false)
		time.Sleep(30 * time.Millisecond)
		f.smallRecv = true
	}
	ds := c02Run(f, c)
	if len(ds) > 0 {
		dropFixture(f)
	}
	return ds
}

func c02Run(f *Fixture, c *c02Case) []Discrepancy {
	var ds []Discrepancy
	rc := &refCtx{Password: c.Cfg.Password, MaxLen: c.Cfg.MaxLen, Owners: f.Owners}
	pi := indexPlans(&c.Spec)
	exp := expectedFor(&c.Spec.Clients[0], pi, rc)
	var res *PipeResult
	if c.NodePause > 0 {
		f.Cluster.PauseReads(time.Duration(c.NodePause) * time.Millisecond)
	}
	if len(c.Spec.Clients[0].Phases) > 0 {
		res = runPhased(f, &c.Spec, len(exp))
	} else if c.SlowReader {
		res = runSlowReader(f, &c.Spec, len(exp))
	} else {
		res = runPipes(f, &c.Spec, []int{len(exp)}, time.Duration(envInt("VERIF_DEADLINE_S", 8))*time.Second)
	}
	ds = f.checkAlive("C02", ds)
	if len(ds) > 0 {
		return ds
	}
	ds = compareReplies("C02", 0, &res.Clients[0], exp, ds)
	// backend side: every request arrived exactly once, byte-exact modulo the case of the name, at a node of the owning replica set
	used := make([]bool, len(res.Log))
	moved := map[int]int{}
	for _, m := range c.Spec.Moved {
		moved[m.Slot] = m.Node
	}
	for i := range c.Spec.Clients[0].Reqs {
		r := &c.Spec.Clients[0].Reqs[i]
		sent := r.Encode()
		key := keyOfReq(r)
		slot := refmodel.KeySlot(key)
		found := -1
		var near *fakecluster.Request
		target, isMoved := moved[slot]
		if isMoved {
			// the first hop (answered -MOVED by the old owner) is accounted for, the copy that counts is the target's
			for j, lr := range res.Log {
				if !used[j] && lr.Node != target && sameModuloName(sent, lr.Raw, len(r.Name)) {
					used[j] = true
					break
				}
			}
		}
		for j, lr := range res.Log {
			if used[j] || (isMoved && lr.Node != target) {
				continue
			}
			if sameModuloName(sent, lr.Raw, len(r.Name)) {
				found = j
				break
			}
			if len(lr.Args) > 1 && bytes.Equal(keysOf(lr.Name, lr.Args)[0], key) && near == nil {
				near = lr
			}
		}
		if found < 0 {
			if near != nil {
				ds = append(ds, disc("C02/request-altered", "request %d: backend received %s, client sent %s", i+1, q(near.Raw), q(sent)))
			} else {
				ds = append(ds, disc("C02/request-not-received", "request %d (%s): no backend received it; %d requests logged", i+1, q(sent), len(res.Log)))
			}
			continue
		}
		used[found] = true
		lr := res.Log[found]
		own := f.Owners[slot]
		if isMoved {
			continue // found at the node the redirection names
		}
		okNode := lr.Node == own.Master
		for _, rep := range own.Replicas {
			if lr.Node == rep && !c.Cfg.DisableSlave {
				okNode = true
			}
		}
		if !okNode {
			ds = append(ds, disc("C02/wrong-node", "request %d for slot %d arrived at node %d, owner is %d with replicas %v", i+1, slot, lr.Node, own.Master, own.Replicas))
		}
	}
	for j, lr := range res.Log {
		if !used[j] {
			ds = append(ds, disc("C02/unexpected-backend-request", "backend node %d received %s which no client request explains", lr.Node, q(lr.Raw)))
			break
		}
	}
	if pe := f.Cluster.ProtoErrors(); len(pe) > 0 {
		ds = append(ds, disc("C02/backend-protocol-error", "backend node %d got malformed bytes: %s (%s)", pe[0].Node, q(pe[0].Head), pe[0].Why))
	}
	return ds
}

// sameModuloName compares two encoded requests ignoring the letter case of the command-name bytes.
func sameModuloName(sent, got []byte, nameLen int) bool {
	if len(sent) != len(got) {
		return false
	}
	// the name is the first bulk: "*N\r\n$L\r\n<name>"
	i := bytes.IndexByte(sent, '\n')
	if i < 0 {
		return false
	}
	j := bytes.IndexByte(sent[i+1:], '\n')
	if j < 0 {
		return false
	}
	start := i + 1 + j + 1
	end := start + nameLen
	if end > len(sent) {
		return false
	}
	if !bytes.Equal(sent[:start], got[:start]) || !bytes.Equal(sent[end:], got[end:]) {
		return false
	}
	return refmodel.ASCIILower(string(sent[start:end])) == refmodel.ASCIILower(string(got[start:end]))
}

func init() {
	registerReplay("C02", func(raw json.RawMessage) ([]Discrepancy, error) {
		var c c02Case
		if err := json.Unmarshal(raw, &c); err != nil {
			return nil, err
		}
		return c02Exec(&c), nil
	})
}

func TestC02(t *testing.T) {
	rec := evidence.For("C02")
	rapidCheck(t, func(t *rapid.T) {
		c := c02Gen(t)
		nt, cls := c02Classify(&c)
		rec.Case(&c, nt, cls...)
		report(t, "C02", &c, c02Exec(&c))
	})
}
