package checks

import (
	"encoding/json"
	"fmt"
	"regexp"
	"testing"
	"time"

	"pgregory.net/rapid"

	"verifharness/evidence"
	"verifharness/fakecluster"
	"verifharness/rclient"
	"verifharness/refmodel"
	"verifharness/sut"
)

// C03: every reply delivered on a client connection was produced for that connection's own request at that
// position (or is an error the proxy generated for it); data of another client or request is never delivered -
// while other clients disconnect mid-flight, some keys cannot be routed, after timeouts, across reconnects.

type c03Action struct {
	// connect | send | disconnect | release | killbackend | refuse | accept | wait |
	// abandon (a throw-away connection writes the first A%40+1 bytes of a SET carrying a token of its own and leaves)
	Kind string      `json:"kind"`
	A    int         `json:"a"`
	Pipe *ClientSpec `json:"pipe,omitempty"`
}

type c03Case struct {
	Cfg     sut.Config  `json:"cfg"`
	Gap     bool        `json:"gap_topology"`
	Plans   []Plan      `json:"plans"`
	Actions []c03Action `json:"actions"`
	Moved   []SlotNode  `json:"moved,omitempty"` // slots whose owner changed: the old owner answers -MOVED (fragments of split requests included)
}

var c03Variants = []c01Variant{
	{sut.Config{ServerConns: 1}, true},
	{sut.Config{ServerConns: 1, TimeoutMs: 150}, true},
	{sut.Config{ServerConns: 2}, true},
	{sut.Config{ServerConns: 1}, false},
	{sut.Config{ServerConns: 2, TimeoutMs: 150}, false},
}

func c03Gen(t *rapid.T) c03Case {
	var c c03Case
	v := rapid.SampledFrom(shardPick(c03Variants, 2)).Draw(t, "variant")
	c.Cfg, c.Gap = v.Cfg, v.Gap
	o := pipeOpts{MaxReqs: 8, Multi: true, MaxKeys: 5, Local: true, Rejected: true, HoldPct: 70}
	if c.Gap {
		o.BadSlots = c01BadSlots
	}
	if rapid.IntRange(0, 2).Draw(t, "movedslots") == 0 {
		for k := rapid.IntRange(1, 3).Draw(t, "nmoved"); k > 0; k-- {
			slot := rapid.SampledFrom(defaultSlots).Draw(t, "movedslot")
			dup := slot >= 16000
			for _, m := range c.Moved {
				if m.Slot == slot {
					dup = true
				}
			}
			if !dup {
				c.Moved = append(c.Moved, SlotNode{Slot: slot, Node: (c13NodeOf(slot) + 1 + rapid.IntRange(0, 1).Draw(t, "movedto")) % 3})
			}
		}
	}
	n := rapid.IntRange(5, 40).Draw(t, "nactions")
	c.Actions = append(c.Actions, c03Action{Kind: "connect"}, c03Action{Kind: "connect"})
	for i := 0; i < n; i++ {
		kind := rapid.SampledFrom([]string{"connect", "send", "send", "send", "send", "disconnect", "release", "release", "release", "killbackend", "refuse", "accept", "wait", "abandon"}).Draw(t, "akind")
		a := c03Action{Kind: kind, A: rapid.IntRange(0, 50).Draw(t, "a")}
		if kind == "send" {
			cs := genClientPipe(t, i, o, &c.Plans)
			cs.Cuts = nil
			a.Pipe = &cs
			// some replies reach the proxy in two reads (the first piece waits in the connection's buffer)
			planned := map[string]bool{}
			for _, p := range c.Plans {
				planned[string(p.Key)] = true
			}
			for ri := range cs.Reqs {
				r := &cs.Reqs[ri]
				if k := keyOfReq(r); k != nil && !planned[string(k)] && rapid.IntRange(0, 3).Draw(t, "splitreply") == 0 {
					c.Plans = append(c.Plans, Plan{Key: k, SplitAt: rapid.IntRange(1, 9).Draw(t, "splitat")})
					planned[string(k)] = true
				}
			}
		}
		c.Actions = append(c.Actions, a)
	}
	return c
}

var c03Tok = regexp.MustCompile(`c(\d+)r(\d+)k(\d+)`)

type c03Client struct {
	cl   *rclient.Client
	exp  []Expect
	id   int
	sent []string
}

func c03Exec(c *c03Case) []Discrepancy {
	variant := ""
	if c.Gap {
		variant = "gap"
	}
	f := getFixtureV("C03", c.Cfg, 3, 0, variant)
	ds := c03Run(f, c)
	if len(ds) > 0 {
		dropFixture(f)
	}
	return ds
}

func c03Run(f *Fixture, c *c03Case) []Discrepancy {
	spec := &PipeSpec{Plans: c.Plans, Moved: c.Moved}
	pi := indexPlans(spec)
	gates := &gateSet{}
	f.Cluster.ResetLog()
	f.Cluster.SetHandler(redirectLayer(f, spec, pi.handler(gates)))
	defer f.Cluster.SetHandler(nil)
	rc := &refCtx{Password: c.Cfg.Password, MaxLen: c.Cfg.MaxLen, Owners: f.Owners}
	var live []*c03Client
	var all []*c03Client
	refused := map[int]bool{}
	defer func() {
		gates.releaseAll()
		for n := range refused {
			f.Cluster.SetAcceptClose(n, false)
		}
		for _, x := range all {
			x.cl.Close()
		}
	}()
	for ai, a := range c.Actions {
		switch a.Kind {
		case "connect":
			if len(live) >= 5 {
				continue
			}
			cl, err := rclient.Dial(f.Proxy.Addr(), "")
			if err != nil {
				return append(f.checkAlive("C03", nil), disc("C03/cannot-connect", "action %d: %v", ai, err))
			}
			x := &c03Client{cl: cl, id: len(all)}
			live = append(live, x)
			all = append(all, x)
		case "send":
			if len(live) == 0 || a.Pipe == nil {
				continue
			}
			x := live[a.A%len(live)]
			quit := false
			for _, e := range x.exp {
				if e.Closes {
					quit = true
				}
			}
			if quit {
				continue
			}
			var stream []byte
			for i := range a.Pipe.Reqs {
				stream = append(stream, a.Pipe.Reqs[i].Encode()...)
				x.sent = append(x.sent, string(a.Pipe.Reqs[i].Encode()))
			}
			x.exp = append(x.exp, expectedFor(a.Pipe, pi, rc)...)
			x.cl.Write(stream)
			time.Sleep(300 * time.Microsecond)
		case "disconnect":
			if len(live) == 0 {
				continue
			}
			i := a.A % len(live)
			if a.A%2 == 0 {
				live[i].cl.Close()
			} else {
				live[i].cl.CloseRST()
			}
			live = append(live[:i], live[i+1:]...)
			time.Sleep(300 * time.Microsecond)
		case "abandon":
			if cl, err := rclient.Dial(f.Proxy.Addr(), ""); err == nil {
				full := refmodel.EncodeCmdS("set", refmodel.KeyInSlot(100+a.A, fmt.Sprintf("c9%dr0k0", ai)), "left-behind-by-a-client-that-is-gone")
				n := a.A%40 + 1
				if n >= len(full) {
					n = len(full) - 1
				}
				cl.Write(full[:n])
				time.Sleep(500 * time.Microsecond)
				if a.A%2 == 0 {
					cl.Close()
				} else {
					cl.CloseRST()
				}
				time.Sleep(300 * time.Microsecond)
			}
		case "release":
			gates.releaseNth(a.A)
			time.Sleep(300 * time.Microsecond)
		case "killbackend":
			f.Cluster.CloseDataConns(a.A%3, a.A%2 == 1)
			time.Sleep(time.Millisecond)
		case "refuse":
			n := a.A % 3
			refused[n] = true
			f.Cluster.SetAcceptClose(n, true)
		case "accept":
			n := a.A % 3
			delete(refused, n)
			f.Cluster.SetAcceptClose(n, false)
		case "wait":
			time.Sleep(time.Duration(a.A%8) * 25 * time.Millisecond)
		}
	}
	for n := range refused {
		f.Cluster.SetAcceptClose(n, false)
	}
	gates.releaseAll()
	// let what is going to arrive arrive (completeness is not this property's business)
	settle := 120 * time.Millisecond
	if c.Cfg.TimeoutMs > 0 {
		settle = 400 * time.Millisecond
	}
	end := time.Now().Add(settle)
	for _, x := range live {
		left := time.Until(end)
		if left < time.Millisecond {
			left = time.Millisecond
		}
		x.cl.WaitReplies(len(x.exp), left)
	}
	ds := f.checkAlive("C03", nil)
	if len(ds) > 0 {
		return ds
	}
	for _, x := range all {
		st := x.cl.Snapshot()
		if st.BadResp != nil {
			ds = append(ds, disc("C03/malformed-reply-stream", "client #%d: reply stream malformed after %d replies: %v; pending %s", x.id, len(st.Replies), st.BadResp, q(st.Pending)))
			continue
		}
		for i, r := range st.Replies {
			if i >= len(x.exp) {
				ds = append(ds, disc("C03/unsolicited-reply", "client #%d sent %d requests and received %d replies; extra reply %s", x.id, len(x.exp), len(st.Replies), q(r.Raw)))
				break
			}
			if x.exp[i].matches(r.Raw) || isErrorReply(r.Raw) {
				continue
			}
			sig := "C03/wrong-reply"
			// does it carry somebody else's token?
			mine := map[string]bool{}
			for _, m := range c03Tok.FindAllString(x.sent[i], -1) {
				mine[m] = true
			}
			for _, m := range c03Tok.FindAllString(string(r.Raw), -1) {
				if !mine[m] {
					sig = "C03/foreign-reply"
				}
			}
			ds = append(ds, disc(sig, "client #%d: reply %d is %s, but its request %d was %s (reference reply %s)", x.id, i+1, q(r.Raw), i+1, q([]byte(x.sent[i])), x.exp[i]))
			break
		}
	}
	// leave the proxy quiescent for the next case
	if len(ds) == 0 {
		if err := f.Witness(5 * time.Second); err != nil {
			ds = append(ds, disc("C03/not-served-afterwards", "after the history a fresh client is not served: %v", err))
		}
	}
	return ds
}

func c03Classify(c *c03Case) (bool, []string) {
	var cls []string
	clients := 0
	events := false
	for _, a := range c.Actions {
		cls = append(cls, "action-"+a.Kind)
		switch a.Kind {
		case "connect":
			clients++
		case "disconnect", "killbackend", "refuse", "abandon":
			events = true
		case "send":
			bad := map[int]bool{}
			if c.Gap {
				for s := 16000; s < 16384; s++ {
					bad[s] = true
				}
			}
			for i := range a.Pipe.Reqs {
				if reqKind(&a.Pipe.Reqs[i], bad, 0) == "unroutable" && len(a.Pipe.Reqs[i].Args) > 1 {
					events = true
					cls = append(cls, "partially-routable-multi-key-request")
				}
			}
		}
	}
	if len(c.Moved) > 0 {
		events = true
		cls = append(cls, "some-slots-have-moved")
	}
	if c.Cfg.TimeoutMs > 0 {
		events = true
		cls = append(cls, "request-timeout-configured")
	}
	cls = append(cls, fmt.Sprintf("sconns-%d", c.Cfg.ServerConns))
	return clients >= 2 && events, dedup(cls)
}

func init() {
	registerReplay("C03", func(raw json.RawMessage) ([]Discrepancy, error) {
		var c c03Case
		if err := json.Unmarshal(raw, &c); err != nil {
			return nil, err
		}
		return c03Exec(&c), nil
	})
}

func TestC03(t *testing.T) {
	rec := evidence.For("C03")
	rapidCheck(t, func(t *rapid.T) {
		c := c03Gen(t)
		nt, cls := c03Classify(&c)
		rec.Case(&c, nt, cls...)
		report(t, "C03", &c, c03Exec(&c))
	})
}

var _ = fakecluster.EchoReply
