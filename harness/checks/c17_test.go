package checks

import (
	"bytes"
	"encoding/json"
	"fmt"
	"strings"
	"testing"

	"pgregory.net/rapid"

	"rcproxy/core/codec"

	"verifharness/evidence"
	"verifharness/refmodel"
	"verifharness/sut"
)

// C17: a request is served iff its command (case-insensitively) is in the documented supported set, its
// argument count satisfies the arity rule and its own encoded size is within the limit; otherwise the client
// gets an error, nothing is forwarded and the neighbours are unaffected; an oversized backend reply is
// replaced by an error.

type c17Case struct {
	Cfg  sut.Config `json:"cfg"`
	Spec PipeSpec   `json:"spec"`
	// Gap: slots 16000-16383 are served by nobody and the configured password - like some of the AUTH arguments
	// and keys of the case - hashes into that range: AUTH is still answered by the proxy itself
	Gap bool `json:"gap_topology,omitempty"`
}

func c17GapWord(slot int, w string) string { return refmodel.KeyInSlot(slot, w) }

var c17Limits = []int{64, 200, 4096, 70000, 0}

// padTo builds SET key value whose encoding is exactly size bytes (nil if impossible).
func padTo(key Bin, size int) *Req {
	for vlen := 0; vlen <= size; vlen++ {
		r := Req{Name: Bin("set"), Args: []Bin{key, bytes.Repeat([]byte("p"), vlen)}}
		n := len(r.Encode())
		if n == size {
			return &r
		}
		if n > size {
			return nil
		}
		if size-n > 20 {
			vlen += size - n - 20
		}
	}
	return nil
}

func c17GenName(t *rapid.T) []byte {
	sup := docs.SupportedNames()
	switch rapid.IntRange(0, 9).Draw(t, "namekind") {
	case 0, 1, 2, 3, 4:
		return genCaseName(rapid.SampledFrom(sup).Draw(t, "sup")).Draw(t, "cased")
	case 5, 6:
		return genCaseName(rapid.SampledFrom(docs.Unsupported).Draw(t, "unsup")).Draw(t, "cased")
	case 7:
		// near miss of a supported name
		n := []byte(rapid.SampledFrom(sup).Draw(t, "near"))
		switch rapid.IntRange(0, 3).Draw(t, "mut") {
		case 0:
			n = append(n, 'x')
		case 1:
			if len(n) > 1 {
				n = n[:len(n)-1]
			}
		case 2:
			n = append([]byte(" "), n...)
		default:
			n[0] ^= 0x80
		}
		return n
	case 8:
		return []byte(rapid.StringMatching(`[a-zA-Z]{1,12}`).Draw(t, "word"))
	default:
		return rapid.SliceOfN(rapid.Byte(), 0, 8).Draw(t, "binname")
	}
}

func c17Gen(t *rapid.T) c17Case {
	var c c17Case
	// per shard: two of the limits, plus one fixture with the default limit, a gap in the slot space and a
	// password that hashes into the gap (three proxies stay alive per shard)
	limit := rapid.SampledFrom(shardPick(c17Limits, 2)).Draw(t, "limit")
	c.Gap = rapid.IntRange(0, 4).Draw(t, "gap") == 0
	if c.Gap {
		limit = 0
	}
	c.Cfg = sut.Config{MaxLen: limit}
	eff := limit
	if eff == 0 {
		eff = 6 << 20
	}
	n := rapid.IntRange(1, 8).Draw(t, "nreq")
	var cs ClientSpec
	for ri := 0; ri < n; ri++ {
		key := keyFor(rapid.SampledFrom(defaultSlots).Draw(t, "slot"), 0, ri, 0)
		switch rapid.IntRange(0, 9).Draw(t, "kind") {
		case 0, 1: // size boundary
			if limit > 0 {
				size := eff + rapid.SampledFrom([]int{-1, 0, 1, 1, 2, 40}).Draw(t, "delta")
				if r := padTo(key, size); r != nil {
					cs.Reqs = append(cs.Reqs, *r)
					continue
				}
			}
			cs.Reqs = append(cs.Reqs, Req{Name: Bin("get"), Args: []Bin{key}})
		case 2: // backend reply around the limit
			cs.Reqs = append(cs.Reqs, Req{Name: Bin("get"), Args: []Bin{key}})
			if limit > 0 {
				target := eff + rapid.SampledFrom([]int{-1, 0, 1, 30}).Draw(t, "rdelta")
				// a bulk reply of exactly target bytes
				for vlen := maxInt(0, target-16); vlen <= target; vlen++ {
					if rep := refmodel.Bulk(bytes.Repeat([]byte("r"), vlen)); len(rep) == target {
						c.Spec.Plans = append(c.Spec.Plans, Plan{Key: key, Reply: rep})
						break
					}
				}
			}
		case 4:
			// a split request whose own size is over the limit although every per-slot fragment is within it
			// (or, one step smaller, a split request just within the limit)
			if limit > 0 {
				klen := maxInt(6, eff/2-20)
				if rapid.IntRange(0, 3).Draw(t, "mkwithin") == 0 {
					klen = maxInt(6, (eff-20)/3-12)
				}
				name := rapid.SampledFrom([]string{"mget", "del", "mset"}).Draw(t, "mkname")
				r := Req{Name: genCaseName(name).Draw(t, "cased")}
				for k := 0; k < 3; k++ {
					tag := refmodel.KeyInSlot(defaultSlots[(ri+k*5)%len(defaultSlots)], fmt.Sprintf("c0r%dk%d", ri, k))
					key := append([]byte(tag), bytes.Repeat([]byte("m"), maxInt(0, klen-len(tag)))...)
					r.Args = append(r.Args, key)
					if name == "mset" {
						r.Args = append(r.Args, Bin("v"))
					}
				}
				cs.Reqs = append(cs.Reqs, r)
				continue
			}
			cs.Reqs = append(cs.Reqs, Req{Name: Bin("get"), Args: []Bin{key}})
		case 5:
			// a split MGET whose fragment replies are each within the limit while the merged reply is not
			// (or, with the smaller share, just is): the limit applies to what the client would get
			if limit >= 200 {
				share := rapid.SampledFrom([]int{30, 45, 55, 70, 95}).Draw(t, "share")
				nk := rapid.IntRange(2, 3).Draw(t, "mgetkeys")
				r := Req{Name: genCaseName("mget").Draw(t, "cased")}
				for k := 0; k < nk; k++ {
					kk := keyFor(defaultSlots[(ri*3+k*4)%12], 0, ri, k)
					r.Args = append(r.Args, kk)
					c.Spec.Values = append(c.Spec.Values, Value{Key: kk, Val: Bin(bytes.Repeat([]byte("m"), eff*share/100/nk*2-rapid.IntRange(0, 12).Draw(t, "trim")))})
				}
				cs.Reqs = append(cs.Reqs, r)
				continue
			}
			cs.Reqs = append(cs.Reqs, Req{Name: Bin("get"), Args: []Bin{key}})
		case 3: // a plain served neighbour
			cs.Reqs = append(cs.Reqs, Req{Name: genCaseName("get").Draw(t, "cased"), Args: []Bin{key}})
		default:
			name := c17GenName(t)
			ln := refmodel.ASCIILower(string(name))
			var nargs int
			if a, ok := refmodel.ArityOf(ln); ok && docs.Supported[ln] && rapid.IntRange(0, 2).Draw(t, "atboundary") > 0 {
				// around the arity boundary
				base := refmodel.ValidNargs(ln, 0)
				nargs = maxInt(0, base+rapid.SampledFrom([]int{-1, 0, 0, 1, 2, 255, 256, 257, 512, 65536}).Draw(t, "adelta"))
				if nargs > 300 && limit > 0 && limit < 70000 {
					nargs = base + 256 // keep the request near the small limits' scale
				}
				_ = a
			} else {
				nargs = rapid.IntRange(0, 6).Draw(t, "nargs")
			}
			r := Req{Name: name}
			for a := 0; a < nargs; a++ {
				r.Args = append(r.Args, keyFor(refmodel.KeySlot(key), 0, ri, a))
			}
			if (ln == "eval" || ln == "evalsha") && nargs >= 2 {
				r.Args[1] = Bin("1")
			}
			if ln == "quit" && nargs == 0 {
				r.Name = Bin("ping") // QUIT would end the pipeline; C01 covers it
			}
			cs.Reqs = append(cs.Reqs, r)
		}
	}
	if c.Gap {
		c.Cfg.Password = c17GapWord(16200, "pw")
		na := rapid.IntRange(1, 3).Draw(t, "nauth")
		for i := 0; i < na; i++ {
			arg := rapid.SampledFrom([]string{c.Cfg.Password, c.Cfg.Password, c17GapWord(16300, "no"), "no", ""}).Draw(t, "autharg")
			r := Req{Name: genCaseName("auth").Draw(t, "cased"), Args: []Bin{Bin(arg)}}
			// takes the place of a request (positions keep their meaning for the backend-side check)
			cs.Reqs[rapid.IntRange(0, len(cs.Reqs)-1).Draw(t, "authat")] = r
		}
	}
	total := 0
	for i := range cs.Reqs {
		total += len(cs.Reqs[i].Encode())
	}
	cs.Cuts = genCuts(total).Draw(t, "cuts")
	c.Spec.Clients = []ClientSpec{cs}
	return c
}

func c17Exec(c *c17Case) []Discrepancy {
	variant := ""
	if c.Gap {
		variant = "gap"
	}
	f := getFixtureV("C17", c.Cfg, 3, 0, variant)
	// (no nonce stamping here: it would move the request sizes off the boundaries they were built for)
	ds := pipeRunCompare("C17", f, &c.Cfg, &c.Spec, 0)
	if len(ds) == 0 {
		ds = c17Backend(f, c)
	}
	if len(ds) > 0 {
		dropFixture(f)
	}
	return ds
}

// c17Backend checks that exactly the served, forwarded requests reached a backend, once each.
func c17Backend(f *Fixture, c *c17Case) []Discrepancy {
	var ds []Discrepancy
	limit := c.Cfg.MaxLen
	if limit == 0 {
		limit = 6 << 20
	}
	pi := indexPlans(&c.Spec)
	rc := &refCtx{Password: c.Cfg.Password, MaxLen: c.Cfg.MaxLen, Owners: f.Owners}
	counts := map[string]int{}
	for _, lr := range f.LastLog {
		for _, k := range keysOf(lr.Name, lr.Args) {
			counts[string(k)]++
		}
	}
	for i := range c.Spec.Clients[0].Reqs {
		r := &c.Spec.Clients[0].Reqs[i]
		ln := r.lname()
		vs := docs.Classify(string(r.Name), len(r.Args), len(r.Encode()), limit)
		var keys []Bin
		all := [][]byte{[]byte(ln)}
		for _, a := range r.Args {
			all = append(all, a)
		}
		for _, k := range keysOf(ln, all) {
			keys = append(keys, k)
		}
		earlyError := refmodel.MultiKey(ln) && expectFor(r, pi, rc).AnyError
		if len(vs) > 0 || refmodel.Local(ln) {
			// nothing of it may be forwarded: none of its argument tokens may show up at a backend
			for _, a := range r.Args {
				if counts[string(a)] > 0 && bytes.Contains(a, []byte(fmt.Sprintf("r%dk", i))) {
					ds = append(ds, disc("C17/rejected-request-forwarded", "request %d (%s) must not be served (%v) but its argument %s reached a backend", i+1, q(r.Encode()), vs, q(a)))
					return ds
				}
			}
			continue
		}
		for _, k := range keys {
			if f.Owners[refmodel.KeySlot(k)].Master < 0 {
				// nobody serves the slot: answered with an error by the proxy, nothing to forward
				if counts[string(k)] != 0 {
					ds = append(ds, disc("C17/rejected-request-forwarded", "request %d (%s) is for a slot nobody serves but its key reached a backend", i+1, q(r.Encode())))
					return ds
				}
				continue
			}
			if earlyError && counts[string(k)] <= 1 {
				// the request is answered as soon as one fragment's reply is refused: a sibling fragment may not
				// have reached its node yet when the client has its answer (never more than once, though)
				continue
			}
			if counts[string(k)] != 1 {
				ds = append(ds, disc("C17/served-request-not-forwarded-once", "request %d (%s) is served by the reference but its key reached a backend %d times", i+1, q(r.Encode()), counts[string(k)]))
				return ds
			}
		}
	}
	return ds
}

func c17Classify(c *c17Case) (bool, []string) {
	limit := c.Cfg.MaxLen
	if limit == 0 {
		limit = 6 << 20
	}
	nt := false
	var cls []string
	kinds := make([]bool, len(c.Spec.Clients[0].Reqs))
	for i := range c.Spec.Clients[0].Reqs {
		r := &c.Spec.Clients[0].Reqs[i]
		size := len(r.Encode())
		vs := docs.Classify(string(r.Name), len(r.Args), size, limit)
		kinds[i] = len(vs) == 0
		for _, v := range vs {
			cls = append(cls, []string{"served", "rej-unknown", "rej-arity", "rej-toolarge"}[v])
		}
		if len(vs) == 0 {
			cls = append(cls, "served")
		}
		if size >= limit-1 && size <= limit+1 {
			nt = true
			cls = append(cls, "size-at-boundary")
		}
		if c.Gap && r.lname() == "auth" && len(r.Args) == 1 && refmodel.KeySlot(r.Args[0]) >= 16000 {
			nt = true
			cls = append(cls, "auth-argument-hashes-to-an-unserved-slot")
		}
		ln := r.lname()
		if docs.Supported[ln] {
			base := refmodel.ValidNargs(ln, 0)
			if len(r.Args) >= base-1 && len(r.Args) <= base+1 && len(r.Args) != base {
				nt = true
				cls = append(cls, "arity-at-boundary")
			}
		}
	}
	for i := 1; i+1 < len(kinds); i++ {
		if !kinds[i] && kinds[i-1] && kinds[i+1] {
			nt = true
			cls = append(cls, "rejected-between-served")
		}
	}
	for _, p := range c.Spec.Plans {
		if len(p.Reply) >= limit-1 && len(p.Reply) <= limit+1 {
			nt = true
			cls = append(cls, "reply-size-at-boundary")
		}
	}
	cls = append(cls, fmt.Sprintf("limit-%d", c.Cfg.MaxLen))
	return nt, dedup(cls)
}

func init() {
	registerReplay("C17", func(raw json.RawMessage) ([]Discrepancy, error) {
		var c c17Case
		if err := json.Unmarshal(raw, &c); err != nil {
			return nil, err
		}
		return c17Exec(&c), nil
	})
}

func TestC17(t *testing.T) {
	rec := evidence.For("C17")
	rapidCheck(t, func(t *rapid.T) {
		c := c17Gen(t)
		nt, cls := c17Classify(&c)
		rec.Case(&c, nt, cls...)
		report(t, "C17", &c, c17Exec(&c))
	})
}

// TestC17Table sweeps the exported name/arity lookup against the reference tables: every supported and
// unsupported documented name, near misses, in several letter cases, with 0..8 arguments.
func TestC17Table(t *testing.T) {
	rec := evidence.For("C17")
	var names []string
	names = append(names, docs.SupportedNames()...)
	names = append(names, docs.Unsupported...)
	for _, n := range docs.SupportedNames() {
		names = append(names, n+"x", n[:len(n)-1], " "+n, n+" ")
	}
	names = append(names, "", "foo", "GETT", "\x00get")
	for _, base := range names {
		variants := []string{base, strings.ToUpper(base), strings.Title(base)}
		if len(base) > 1 {
			variants = append(variants, base[:1]+strings.ToUpper(base[1:]))
		}
		for _, v := range variants {
			ln := refmodel.ASCIILower(v)
			if ln == "eval" || ln == "evalsha" {
				continue // their arity is enforced by the decoder, covered end to end
			}
			for n := 0; n <= 8; n++ {
				got := codec.Transform2Type([]byte(v), n)
				var want string
				switch {
				case !docs.Supported[ln]:
					want = "unknown"
				case !refmodel.ArityOK(ln, n):
					want = "arity"
				default:
					want = "served"
				}
				var have string
				switch {
				case got == codec.UNKNOWN:
					have = "unknown"
				case got == codec.ReqWrongArgumentsNumber:
					have = "arity"
				case got > codec.UNKNOWN && got < codec.ReqTooLarge:
					have = "served"
				default:
					have = fmt.Sprintf("type-%d", got)
				}
				cs := map[string]interface{}{"name": v, "nargs": n}
				rec.Case(cs, want != "served" || n == refmodel.ValidNargs(ln, 0), "table-"+want)
				if have != want {
					report(t, "C17", cs, []Discrepancy{disc("C17/table-mismatch", "command %q with %d arguments: lookup says %s, the documented table says %s", v, n, have, want)})
				}
			}
		}
	}
}
