package checks

import (
	"testing"
	"time"

	"verifharness/rclient"
	"verifharness/sut"
)

// TestSmoke starts a fixture and does a few round trips (harness self-test).
func TestSmoke(t *testing.T) {
	t0 := time.Now()
	f := getFixture("SMOKE", sut.Config{}, 3, 1)
	t.Logf("fixture up in %v", time.Since(t0))
	if err := f.Witness(2 * time.Second); err != nil {
		t.Fatal(err)
	}
	rep, err := rclient.RoundTrip(f.Proxy.Addr(), time.Second, "PING")
	t.Logf("PING -> %q %v", rep, err)
	rep, err = rclient.RoundTrip(f.Proxy.Addr(), time.Second, "MGET", "a", "b", "c")
	t.Logf("MGET -> %q %v", rep, err)
	for _, r := range f.Cluster.Log() {
		t.Logf("node %d conn %d: %q ro=%v", r.Node, r.Conn, r.Raw, r.ReadOnly)
	}
	for _, ci := range f.Cluster.Conns() {
		t.Logf("conn %d node %d events %v", ci.ID, ci.Node, ci.Events)
	}
}
