package checks

import (
	"fmt"

	"pgregory.net/rapid"

	"verifharness/refmodel"
)

// pipeOpts steers the mixed-pipeline generator shared by the end-to-end checks.
type pipeOpts struct {
	MaxReqs    int
	Slots      []int  // candidate slots for keys (nil = a spread over all nodes)
	BadSlots   []int  // slots nobody owns (unroutable requests), nil = none
	Local      bool   // PING / AUTH
	Quit       bool   // QUIT may appear
	Rejected   bool   // unknown commands, wrong arity
	TooLarge   int    // >0: generate requests larger than this limit
	Multi      bool   // MGET / DEL / MSET
	MaxKeys    int    // keys per multi-key request
	Password   string // configured password (for AUTH expectations)
	HoldPct    int    // percentage of forwarded fragments whose reply is held behind a gate
	OnlyGetSet bool   // singles are only GET/SET (order checks)
}

var defaultSlots = []int{0, 1, 100, 2730, 5460, 5461, 5462, 8000, 10921, 10922, 10923, 12000, 15999, 16383}

func keyFor(slot, ci, ri, ki int) Bin {
	return Bin(refmodel.KeyInSlot(slot, fmt.Sprintf("c%dr%dk%d", ci, ri, ki)))
}

// genClientPipe draws one client's pipeline. Plans for held replies are appended to plans.
func genClientPipe(t *rapid.T, ci int, o pipeOpts, plans *[]Plan) ClientSpec {
	slots := o.Slots
	if slots == nil {
		slots = defaultSlots
	}
	names := docs.SingleKeyNames()
	n := rapid.IntRange(1, o.MaxReqs).Draw(t, "nreq")
	var cs ClientSpec
	hold := func(key Bin) {
		if o.HoldPct > 0 && rapid.IntRange(0, 99).Draw(t, "hold") < o.HoldPct {
			*plans = append(*plans, Plan{Key: key, Hold: true})
		}
	}
	for ri := 0; ri < n; ri++ {
		kinds := []string{"get", "get", "set", "single"}
		if o.Multi {
			kinds = append(kinds, "mget", "del", "mset")
		}
		if o.Local {
			kinds = append(kinds, "ping", "ping", "auth")
		}
		if o.Rejected {
			kinds = append(kinds, "unknown", "arity")
		}
		if o.TooLarge > 0 {
			kinds = append(kinds, "toolarge")
		}
		if len(o.BadSlots) > 0 {
			kinds = append(kinds, "unroutable", "unroutable-multi")
		}
		if o.Quit && ri > 0 && rapid.IntRange(0, 25).Draw(t, "quitp") == 0 {
			kinds = []string{"quit"}
		}
		kind := rapid.SampledFrom(kinds).Draw(t, "kind")
		slot := rapid.SampledFrom(slots).Draw(t, "slot")
		var r Req
		switch kind {
		case "get":
			k := keyFor(slot, ci, ri, 0)
			r = Req{Name: genCaseName("get").Draw(t, "cased"), Args: []Bin{k}}
			hold(k)
		case "set":
			k := keyFor(slot, ci, ri, 0)
			r = Req{Name: genCaseName("set").Draw(t, "cased"), Args: []Bin{k, Bin(fmt.Sprintf("v%d.%d", ci, ri))}}
			hold(k)
		case "single":
			name := "get"
			if !o.OnlyGetSet {
				name = rapid.SampledFrom(names).Draw(t, "name")
			}
			k := keyFor(slot, ci, ri, 0)
			nargs := refmodel.ValidNargs(name, rapid.IntRange(0, 2).Draw(t, "extra"))
			r = Req{Name: genCaseName(name).Draw(t, "cased")}
			for a := 0; a < nargs; a++ {
				r.Args = append(r.Args, Bin(fmt.Sprintf("a%d", a)))
			}
			if name == "eval" || name == "evalsha" {
				r.Args[1] = Bin("1")
				r.Args[2] = k
			} else {
				r.Args[0] = k
			}
			hold(k)
		case "mget", "del", "mset":
			maxk := o.MaxKeys
			if maxk < 1 {
				maxk = 8
			}
			nk := rapid.IntRange(1, maxk).Draw(t, "nkeys")
			nslots := rapid.IntRange(1, 4).Draw(t, "nslots")
			var ss []int
			for i := 0; i < nslots; i++ {
				ss = append(ss, rapid.SampledFrom(slots).Draw(t, "mslot"))
			}
			r = Req{Name: genCaseName(kind).Draw(t, "cased")}
			seenSlot := map[int]bool{}
			for ki := 0; ki < nk; ki++ {
				s := ss[rapid.IntRange(0, len(ss)-1).Draw(t, "kslot")]
				k := keyFor(s, ci, ri, ki)
				if ki > 0 && rapid.IntRange(0, 9).Draw(t, "dup") == 0 {
					k = r.Args[0] // duplicate of the first key
					s = refmodel.KeySlot(k)
				}
				r.Args = append(r.Args, k)
				if kind == "mset" {
					r.Args = append(r.Args, Bin(fmt.Sprintf("v%d.%d.%d", ci, ri, ki)))
				}
				if !seenSlot[s] {
					seenSlot[s] = true
					hold(k)
				}
			}
		case "ping":
			r = Req{Name: genCaseName("ping").Draw(t, "cased")}
		case "quit":
			r = Req{Name: genCaseName("quit").Draw(t, "cased")}
		case "auth":
			pw := rapid.SampledFrom([]string{o.Password, "wrong", ""}).Draw(t, "pw")
			r = Req{Name: genCaseName("auth").Draw(t, "cased"), Args: []Bin{Bin(pw)}}
		case "unknown":
			name := rapid.SampledFrom(append([]string{"foo", "gett", "ge", "select", "multi", "keys", "flushall", "info", "cluster", "subscribe"}, docs.Unsupported...)).Draw(t, "uname")
			r = Req{Name: Bin(name), Args: []Bin{keyFor(slot, ci, ri, 0)}}
		case "arity":
			name := rapid.SampledFrom(names).Draw(t, "aname")
			var bad int
			for try := 0; try < 8; try++ {
				bad = rapid.IntRange(0, 5).Draw(t, "badn")
				if !refmodel.ArityOK(name, bad) {
					break
				}
			}
			if refmodel.ArityOK(name, bad) {
				name, bad = "get", 2
			}
			r = Req{Name: Bin(name)}
			for a := 0; a < bad; a++ {
				r.Args = append(r.Args, keyFor(slot, ci, ri, a))
			}
		case "toolarge":
			k := keyFor(slot, ci, ri, 0)
			pad := make([]byte, o.TooLarge+rapid.IntRange(0, 64).Draw(t, "over"))
			for i := range pad {
				pad[i] = 'x'
			}
			r = Req{Name: Bin("set"), Args: []Bin{k, pad}}
		case "unroutable":
			bs := rapid.SampledFrom(o.BadSlots).Draw(t, "badslot")
			r = Req{Name: Bin("get"), Args: []Bin{keyFor(bs, ci, ri, 0)}}
		case "unroutable-multi":
			bs := rapid.SampledFrom(o.BadSlots).Draw(t, "badslot")
			nm := rapid.SampledFrom([]string{"mget", "del"}).Draw(t, "umname")
			r = Req{Name: Bin(nm)}
			nk := rapid.IntRange(2, 5).Draw(t, "unk")
			badAt := rapid.IntRange(0, nk-1).Draw(t, "badat")
			for ki := 0; ki < nk; ki++ {
				s := rapid.SampledFrom(slots).Draw(t, "uslot")
				if ki == badAt {
					s = bs
				}
				r.Args = append(r.Args, keyFor(s, ci, ri, ki))
			}
		}
		cs.Reqs = append(cs.Reqs, r)
		if kind == "quit" {
			// whatever follows a QUIT is never answered; add a couple of requests after it sometimes
			if rapid.Bool().Draw(t, "afterquit") {
				cs.Reqs = append(cs.Reqs, Req{Name: Bin("get"), Args: []Bin{keyFor(slot, ci, ri+1, 0)}})
			}
			break
		}
	}
	total := 0
	for i := range cs.Reqs {
		total += len(cs.Reqs[i].Encode())
	}
	cs.Cuts = genCuts(total).Draw(t, "cuts")
	if len(cs.Cuts) > 0 {
		cs.PauseUs = rapid.SampledFrom([]int{0, 0, 100, 500}).Draw(t, "pause")
	}
	return cs
}

// genSchedule draws a release order for n held replies.
func genSchedule(t *rapid.T, n int) []int {
	if n == 0 {
		return nil
	}
	out := make([]int, n)
	for i := range out {
		out[i] = rapid.IntRange(0, n).Draw(t, "rel")
	}
	return out
}

// reqKind classifies a request for evidence and non-triviality rules.
func reqKind(r *Req, badSlots map[int]bool, limit int) string {
	name := r.lname()
	if limit == 0 {
		limit = 6 << 20
	}
	if vs := docs.Classify(string(r.Name), len(r.Args), len(r.Encode()), limit); len(vs) > 0 {
		return "rejected"
	}
	if refmodel.Local(name) {
		return "local"
	}
	if refmodel.MultiKey(name) {
		step := 1
		if name == "mset" {
			step = 2
		}
		for i := 0; i < len(r.Args); i += step {
			if badSlots[refmodel.KeySlot(r.Args[i])] {
				return "unroutable"
			}
		}
		return "split"
	}
	if k := keyOfReq(r); badSlots[refmodel.KeySlot(k)] {
		return "unroutable"
	}
	return "single"
}

// genPhased draws a backlog case: a first batch of GETs with big replies (the backlog), then 1-3 phases of
// "read part of it, send a few more requests". local: the later requests are ones the proxy answers itself.
func genPhased(t *rapid.T, local bool) (ClientSpec, []Plan) {
	var cs ClientSpec
	var plans []Plan
	cs.RcvBuf = rapid.SampledFrom([]int{4096, 16384, 16384, 16384, 32768, 65536, 65536, 65536, 65536, 131072}).Draw(t, "rcvbuf")
	nbig := rapid.IntRange(3, 24).Draw(t, "nbig")
	each := rapid.SampledFrom([]int{9000, 30000, 70000, 140000}).Draw(t, "each")
	if rapid.IntRange(0, 1).Draw(t, "manysmall") == 0 {
		// the backlog is made of many small and medium replies instead of a few big ones (the proxy's buffers
		// grow in many small steps)
		nbig = rapid.IntRange(150, 800).Draw(t, "nsmall")
		each = rapid.SampledFrom([]int{12, 90, 400, 1300}).Draw(t, "eachsmall")
		// ... sent one by one, so that the replies trickle into the client's buffers one at a time
		cs.PauseUs = rapid.SampledFrom([]int{30, 150}).Draw(t, "trickle")
	}
	if cs.RcvBuf == 4096 && nbig*each > 160000 {
		each = 160000 / nbig // a 4 KiB window moves only tens of KB per second
	}
	backlog := 0
	for i := 0; i < nbig; i++ {
		key := keyFor([]int{100, 6000, 12000}[i%3], 0, i, 0)
		sz := each - rapid.IntRange(0, each/3).Draw(t, "less")
		seed := Bin(rapid.SliceOfN(rapid.Byte(), 1, 7).Draw(t, "seed"))
		cs.Reqs = append(cs.Reqs, Req{Name: Bin("get"), Args: []Bin{key}})
		plans = append(plans, Plan{Key: key, BulkLen: sz, BulkSeed: seed})
		backlog += len(refmodel.Bulk(make([]byte, sz)))
	}
	cs.Phases = []Phase{{Reqs: nbig}}
	left := backlog
	np := rapid.IntRange(1, 3).Draw(t, "nphases")
	for p := 0; p < np && left > 1; p++ {
		rd := rapid.IntRange(1, left-1).Draw(t, "read")
		left -= rd
		k := rapid.IntRange(1, 3).Draw(t, "later")
		for j := 0; j < k; j++ {
			ri := len(cs.Reqs)
			kind := rapid.IntRange(0, 3).Draw(t, "laterkind")
			switch {
			case local && kind <= 1:
				cs.Reqs = append(cs.Reqs, Req{Name: Bin("ping")})
				left += len("+PONG\r\n")
			case local && kind == 2:
				cs.Reqs = append(cs.Reqs, Req{Name: Bin("keys"), Args: []Bin{Bin("*")}}) // not supported: rejected locally
				left += 30
			default:
				key := keyFor([]int{100, 6000, 12000}[ri%3], 0, ri, 0)
				sz := rapid.SampledFrom([]int{3, 40, 5000, 70000}).Draw(t, "latersize")
				cs.Reqs = append(cs.Reqs, Req{Name: Bin("get"), Args: []Bin{key}})
				plans = append(plans, Plan{Key: key, BulkLen: sz, BulkSeed: Bin(fmt.Sprintf("L%d.", ri))})
				left += len(refmodel.Bulk(make([]byte, sz)))
			}
		}
		cs.Phases = append(cs.Phases, Phase{Read: rd, Reqs: k})
	}
	return cs, plans
}

