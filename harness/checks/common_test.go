package checks

import (
	"encoding/json"
	"fmt"
	"os"
	"path/filepath"
	"strconv"
	"strings"
	"sync"
	"testing"
	"time"

	"pgregory.net/rapid"

	"verifharness/evidence"
	"verifharness/fakecluster"
	"verifharness/rclient"
	"verifharness/refmodel"
	"verifharness/sut"
)

// Discrepancy is one way in which the observed behaviour differs from the reference.
type Discrepancy struct {
	Sig string `json:"sig"` // machine signature: <property>/<what>, independent of the seed
	Msg string `json:"msg"`
}

func disc(sig, format string, a ...interface{}) Discrepancy {
	return Discrepancy{Sig: sig, Msg: fmt.Sprintf(format, a...)}
}

var (
	tier      = envOr("VERIF_TIER", "quick")
	shardID   = envOr("VERIF_SHARD", "0")
	replayDir = envOr("VERIF_REPLAYS", "/verif/replays")
	knownOpen = map[string]bool{}
	docs      *refmodel.Docs
)

func envOr(k, d string) string {
	if v := os.Getenv(k); v != "" {
		return v
	}
	return d
}

func envInt(k string, d int) int {
	if v := os.Getenv(k); v != "" {
		if n, err := strconv.Atoi(v); err == nil {
			return n
		}
	}
	return d
}

func thorough() bool { return tier == "thorough" }

func TestMain(m *testing.M) {
	for _, s := range strings.Split(os.Getenv("VERIF_KNOWN_OPEN"), ",") {
		if s = strings.TrimSpace(s); s != "" {
			knownOpen[s] = true
		}
	}
	var err error
	docs, err = refmodel.LoadDocs()
	if err != nil {
		fmt.Println("HARNESS-ERROR cannot load docs/command.md:", err)
		os.Exit(3)
	}
	code := m.Run()
	closeFixtures()
	evidence.FlushAll()
	os.Exit(code)
}

// harnessProblem aborts the shard with the "inconclusive" exit code: the machinery, not the proxy, failed.
func harnessProblem(format string, a ...interface{}) {
	fmt.Printf("HARNESS-ERROR "+format+"\n", a...)
	closeFixtures()
	evidence.FlushAll()
	os.Exit(3)
}

type fataler interface {
	Fatalf(format string, args ...interface{})
	Helper()
}

type replayFile struct {
	Property      string          `json:"property"`
	Case          json.RawMessage `json:"case"`
	Discrepancies []Discrepancy   `json:"discrepancies"`
	Note          string          `json:"note,omitempty"`
}

// report handles the discrepancies of one executed case: nothing for none; a KNOWN record when every one of
// them matches an open known finding; otherwise it stores the replay file and fails the test.
func report(t fataler, prop string, c interface{}, ds []Discrepancy) {
	t.Helper()
	if len(ds) == 0 {
		return
	}
	rec := evidence.For(prop)
	allKnown := true
	for _, d := range ds {
		if !knownOpen[d.Sig] {
			allKnown = false
		}
	}
	if allKnown {
		for _, d := range ds {
			rec.Known(d.Sig, d.Msg)
		}
		return
	}
	rec.Freeze()
	cj, _ := json.Marshal(c)
	rf := replayFile{Property: prop, Case: cj, Discrepancies: ds}
	b, _ := json.MarshalIndent(rf, "", " ")
	os.MkdirAll(replayDir, 0o755)
	path := filepath.Join(replayDir, fmt.Sprintf("%s-seed%s-shard%s.json", prop, envOr("VERIF_SEED", "1"), shardID))
	if os.Getenv("VERIF_REPLAY") == "" {
		os.WriteFile(path, b, 0o644)
	} else {
		path = os.Getenv("VERIF_REPLAY")
	}
	var sb strings.Builder
	for i, d := range ds {
		if i >= 6 {
			fmt.Fprintf(&sb, "\n  ... %d more", len(ds)-i)
			break
		}
		fmt.Fprintf(&sb, "\n  [%s] %s", d.Sig, d.Msg)
	}
	fmt.Printf("DISCREPANCY property=%s replay=%s sig=%s\n", prop, path, ds[0].Sig)
	t.Fatalf("property %s violated (replay %s):%s", prop, path, sb.String())
}

// caseDiscarded is returned by case steps that could not be played for reasons of the machine, not of the proxy.
const caseDiscarded = "\x00case discarded"

// ---- replay registry ---------------------------------------------------------------------------

var replayers = map[string]func(raw json.RawMessage) ([]Discrepancy, error){}

func registerReplay(prop string, f func(raw json.RawMessage) ([]Discrepancy, error)) {
	replayers[prop] = f
}

// TestReplay re-executes a stored case without the property library.
func TestReplay(t *testing.T) {
	p := os.Getenv("VERIF_REPLAY")
	if p == "" {
		t.Skip("VERIF_REPLAY not set")
	}
	b, err := os.ReadFile(p)
	if err != nil {
		harnessProblem("cannot read replay file: %v", err)
	}
	var rf replayFile
	if err := json.Unmarshal(b, &rf); err != nil {
		harnessProblem("bad replay file: %v", err)
	}
	f := replayers[rf.Property]
	if f == nil {
		harnessProblem("no replayer for property %s", rf.Property)
	}
	ds, err := f(rf.Case)
	if err != nil {
		harnessProblem("replay: %v", err)
	}
	if len(ds) > 0 {
		for _, d := range ds {
			fmt.Printf("  [%s] %s\n", d.Sig, d.Msg)
		}
		fmt.Printf("DISCREPANCY property=%s replay=%s sig=%s\n", rf.Property, p, ds[0].Sig)
		t.Fatalf("replayed case still violates %s", rf.Property)
	}
	fmt.Printf("REPLAY-OK property=%s\n", rf.Property)
}

// TestRegressions replays every stored regression case of VERIF_PROP under /verif/regressions/<prop>/.
func TestRegressions(t *testing.T) {
	prop := os.Getenv("VERIF_PROP")
	if prop == "" {
		t.Skip("VERIF_PROP not set")
	}
	files, _ := filepath.Glob(filepath.Join(envOr("VERIF_REGRESSIONS", "/verif/regressions"), prop, "*.json"))
	f := replayers[prop]
	n := 0
	for _, p := range files {
		b, err := os.ReadFile(p)
		if err != nil {
			continue
		}
		var rf replayFile
		if json.Unmarshal(b, &rf) != nil || f == nil {
			harnessProblem("bad regression file %s", p)
		}
		ds, err := f(rf.Case)
		if err != nil {
			harnessProblem("regression %s: %v", p, err)
		}
		n++
		if len(ds) > 0 {
			allKnown := true
			for _, d := range ds {
				if !knownOpen[d.Sig] {
					allKnown = false
				}
			}
			if allKnown {
				for _, d := range ds {
					evidence.For(prop).Known(d.Sig, d.Msg)
				}
				continue
			}
			for _, d := range ds {
				fmt.Printf("  [%s] %s\n", d.Sig, d.Msg)
			}
			fmt.Printf("DISCREPANCY property=%s replay=%s sig=%s\n", prop, p, ds[0].Sig)
			t.Fatalf("stored regression case %s violates %s", p, prop)
		}
	}
	evidence.For(prop).Add("regression_cases_replayed", n)
}

// ---- fixtures: a fake cluster plus a proxy subprocess ----------------------------------------------

// Fixture is a fake cluster and a proxy running against it.
type Fixture struct {
	Key     string
	Cluster *fakecluster.Cluster
	Topo    *fakecluster.Topo
	Proxy   *sut.Proxy
	Cfg     sut.Config
	Masters int
	Reps    int
	Owners  []fakecluster.SlotOwner
	nonce   int
	lastUse int64

	smallRecv bool // the fake nodes accept connections with a small receive buffer
	LastLog   []*fakecluster.Request // backend log of the last pipeRunCompare, without the harness' probes and stale traffic of earlier cases
}

var useClock int64
var fixtureSerial int

// shardPick returns n entries of all, chosen by VERIF_SEED and the shard number, so that each shard process
// works with a few configurations (few proxies alive) while the shards together cover the whole list.
func shardPick[T any](all []T, n int) []T {
	if n >= len(all) {
		return all
	}
	base := envInt("VERIF_SEED", 1)*7 + envInt("VERIF_SHARD", 0)*n
	out := make([]T, 0, n)
	for i := 0; i < n; i++ {
		out = append(out, all[(base+i)%len(all)])
	}
	return out
}

var (
	fixMu    sync.Mutex
	fixtures = map[string]*Fixture{}
	restarts = 0
)

func closeFixtures() {
	fixMu.Lock()
	defer fixMu.Unlock()
	for k, f := range fixtures {
		f.Close()
		delete(fixtures, k)
	}
}

// Close stops the proxy and the cluster.
func (f *Fixture) Close() {
	if f.Proxy != nil {
		f.Proxy.Stop()
	}
	if f.Cluster != nil {
		f.Cluster.Close()
	}
}

// getFixture returns a healthy fixture for (cfg, masters, replicas per master), starting one if needed.
// cfg.Servers is filled in. A fixture that failed its last case must be dropped with dropFixture.
func getFixture(prop string, cfg sut.Config, masters, reps int) *Fixture {
	return getFixtureV(prop, cfg, masters, reps, "")
}

// getFixtureV is getFixture with a topology variant: "" = every slot owned; "gap" = slots 16000-16383 unowned.
func getFixtureV(prop string, cfg sut.Config, masters, reps int, variant string) *Fixture {
	key := fmt.Sprintf("%s|%d|%d|%s|%s", prop, masters, reps, variant, cfg.Key())
	fixMu.Lock()
	f := fixtures[key]
	useClock++
	if f != nil {
		f.lastUse = useClock
	}
	fixMu.Unlock()
	if f != nil {
		if f.Proxy.Alive() {
			return f
		}
		dropFixture(f)
	}
	// every proxy holds an inotify instance (128 per user on this system), so only a few fixtures stay alive
	for {
		fixMu.Lock()
		var lru *Fixture
		if len(fixtures) >= envInt("VERIF_MAX_FIXTURES", 3) {
			for _, x := range fixtures {
				if lru == nil || x.lastUse < lru.lastUse {
					lru = x
				}
			}
		}
		fixMu.Unlock()
		if lru == nil {
			break
		}
		dropFixture(lru)
		evidence.For(prop).Add("fixtures_evicted", 1)
	}
	var lastErr error
	for attempt := 0; attempt < 4; attempt++ {
		if attempt > 0 {
			time.Sleep(time.Duration(attempt) * 700 * time.Millisecond)
		}
		f, lastErr = newFixture(cfg, masters, reps, 0, variant)
		if lastErr == nil {
			f.Key = key
			fixMu.Lock()
			useClock++
			f.lastUse = useClock
			fixtures[key] = f
			restarts++
			fixMu.Unlock()
			evidence.For(prop).Add("proxy_starts", 1)
			return f
		}
	}
	harnessProblem("cannot start fixture: %v", lastErr)
	return nil
}

func dropFixture(f *Fixture) {
	if f == nil {
		return
	}
	fixMu.Lock()
	if fixtures[f.Key] == f {
		delete(fixtures, f.Key)
	}
	fixMu.Unlock()
	f.Close()
}

// newFixture starts a cluster of masters*(1+reps)+spare nodes with an even topology and a proxy.
func newFixture(cfg sut.Config, masters, reps, spare int, variant string) (*Fixture, error) {
	cl, err := fakecluster.New(masters*(1+reps) + spare)
	if err != nil {
		return nil, err
	}
	topo := fakecluster.EvenTopo(cl, masters, reps)
	if variant == "gap" {
		// the last master gives up 16000-16383: those slots are owned by nobody
		last := &topo.Nodes[masters-1]
		last.Slots[len(last.Slots)-1][1] = 15999
	}
	topo.Install(cl)
	topo.SetInfoFromTopo(cl)
	cl.SetPassword(cfg.Password)
	fixtureSerial++
	switch {
	case cfg.Password != "" && fixtureSerial%3 == 0:
		cl.SetHandshakeGap(3 * time.Millisecond)
	case fixtureSerial%3 == 1:
		cl.SetHandshakeCoalesce(true)
	}
	cfg.Servers = nil
	for i := 0; i < masters && i < 2; i++ {
		cfg.Servers = append(cfg.Servers, cl.Nodes[i].Addr)
	}
	cfg.Preconnect = true
	p, err := sut.Start(cfg)
	if err != nil {
		cl.Close()
		return nil, err
	}
	f := &Fixture{Cluster: cl, Topo: topo, Proxy: p, Cfg: cfg, Masters: masters, Reps: reps, Owners: topo.Expected(nil)}
	if err := f.WaitRouting(12 * time.Second); err != nil {
		f.Close()
		return nil, err
	}
	return f, nil
}

// startFixtureWith starts a proxy against an existing cluster and topology (seeded with the given node indexes).
func startFixtureWith(cl *fakecluster.Cluster, topo *fakecluster.Topo, cfg sut.Config, seeds []int, excluded map[int]bool) (*Fixture, error) {
	topo.Install(cl)
	cl.SetPassword(cfg.Password)
	fixtureSerial++
	switch {
	case cfg.Password != "" && fixtureSerial%3 == 0:
		cl.SetHandshakeGap(3 * time.Millisecond) // AUTH's and READONLY's +OK arrive in separate reads
	case fixtureSerial%3 == 1:
		cl.SetHandshakeCoalesce(true) // ... or in one segment with the reply to the first request behind them
	}
	cfg.Servers = nil
	for _, i := range seeds {
		cfg.Servers = append(cfg.Servers, cl.Nodes[i].Addr)
	}
	cfg.Preconnect = true
	p, err := sut.Start(cfg)
	if err != nil {
		return nil, err
	}
	masters := 0
	for i := range topo.Nodes {
		if topo.Nodes[i].Master {
			masters++
		}
	}
	f := &Fixture{Cluster: cl, Topo: topo, Proxy: p, Cfg: cfg, Masters: masters, Owners: topo.Expected(excluded)}
	if err := f.WaitRouting(12 * time.Second); err != nil {
		p.Stop()
		f.Proxy = nil
		return nil, err
	}
	return f, nil
}

// WaitRouting waits until a probe for a slot of every master is served.
func (f *Fixture) WaitRouting(timeout time.Duration) error {
	deadline := time.Now().Add(timeout)
	var last string
	for time.Now().Before(deadline) {
		if !f.Proxy.Alive() {
			return fmt.Errorf("proxy died while waiting for routing: %s", f.Proxy.ExitInfo())
		}
		ok := true
		for i := range f.Topo.Nodes {
			n := &f.Topo.Nodes[i]
			if !n.Master || len(n.Slots) == 0 || !n.Usable() {
				continue
			}
			key := refmodel.KeyInSlot(n.Slots[0][0], "ready")
			rep, err := rclient.RoundTrip(f.Proxy.Addr(), time.Second, "GET", key)
			if err != nil || len(rep) == 0 || rep[0] == '-' {
				ok = false
				last = fmt.Sprintf("%q %v", rep, err)
				break
			}
		}
		if ok {
			return nil
		}
		time.Sleep(50 * time.Millisecond)
	}
	return fmt.Errorf("routing not loaded within %v (last: %s)", timeout, last)
}

// Witness performs a round trip on a fresh connection through every master and reports whether it was
// answered correctly within the timeout.
func (f *Fixture) Witness(timeout time.Duration) error {
	if !f.Proxy.Alive() {
		return fmt.Errorf("proxy not running: %s", f.Proxy.ExitInfo())
	}
	f.nonce++
	for i := range f.Topo.Nodes {
		n := &f.Topo.Nodes[i]
		if !n.Master || len(n.Slots) == 0 || !n.Usable() {
			continue
		}
		key := refmodel.KeyInSlot(n.Slots[0][0], fmt.Sprintf("witness-%d", f.nonce))
		rep, err := rclient.RoundTrip(f.Proxy.Addr(), timeout, "SET", key, "w")
		if err != nil {
			return fmt.Errorf("witness through node %d: %v", n.Node, err)
		}
		want := refmodel.Bulk(fakecluster.EchoValue("set", key))
		if string(rep) != string(want) {
			return fmt.Errorf("witness through node %d: got %q want %q", n.Node, rep, want)
		}
	}
	return nil
}

// Responsive measures whether the proxy's event loop answers a locally served request on a fresh connection.
func (f *Fixture) Responsive(timeout time.Duration) error {
	if !f.Proxy.Alive() {
		return fmt.Errorf("proxy not running")
	}
	rep, err := rclient.RoundTrip(f.Proxy.Addr(), timeout, "PING")
	if err != nil {
		return err
	}
	if string(rep) != "+PONG\r\n" {
		return fmt.Errorf("PING answered %q", rep)
	}
	return nil
}

// Nonce returns a string unique per call within this process, used to make keys of different cases distinct.
func (f *Fixture) Nonce() string {
	f.nonce++
	return fmt.Sprintf("%s.%d", shardID, f.nonce)
}

// checkAlive appends a discrepancy if the proxy process has exited.
func (f *Fixture) checkAlive(prop string, ds []Discrepancy) []Discrepancy {
	if !f.Proxy.Alive() {
		ds = append(ds, disc(prop+"/proxy-exited", "the proxy process exited: %s", f.Proxy.ExitInfo()))
	}
	return ds
}

// rapidCheck runs prop with rapid and turns "no case could be generated" style problems into harness errors.
func rapidCheck(t *testing.T, prop func(t *rapid.T)) {
	rapid.Check(t, prop)
}

func q(b []byte) string {
	if len(b) > 200 {
		return fmt.Sprintf("%q...(%d bytes)", b[:200], len(b))
	}
	return fmt.Sprintf("%q", b)
}
