package checks

import (
	"encoding/json"
	"testing"

	"pgregory.net/rapid"

	"verifharness/evidence"
	"verifharness/refmodel"
	"verifharness/sut"
)

// C11: a backend error (other than a redirect) on a single-key request reaches the client verbatim; an error
// on any fragment of a split request makes the whole request an error; never a success value, crash or stall.

type c11Case struct {
	Cfg  sut.Config `json:"cfg"`
	Spec PipeSpec   `json:"spec"`
}

func c11Gen(t *rapid.T) c11Case {
	var c c11Case
	c.Cfg = rapid.SampledFrom(shardPick([]sut.Config{{}, {DisableSlave: true}, {ServerConns: 2}}, 2)).Draw(t, "cfg")
	var cs ClientSpec
	n := rapid.IntRange(1, 6).Draw(t, "nreq")
	names := docs.SingleKeyNames()
	held := 0
	for ri := 0; ri < n; ri++ {
		switch rapid.IntRange(0, 5).Draw(t, "kind") {
		case 0: // healthy neighbour
			cs.Reqs = append(cs.Reqs, Req{Name: Bin("get"), Args: []Bin{keyFor(rapid.SampledFrom(defaultSlots).Draw(t, "slot"), 0, ri, 0)}})
		case 1, 2: // failing single
			name := rapid.SampledFrom(names).Draw(t, "name")
			k := keyFor(rapid.SampledFrom(defaultSlots).Draw(t, "slot"), 0, ri, 0)
			r := Req{Name: genCaseName(name).Draw(t, "cased")}
			for a := 0; a < refmodel.ValidNargs(name, 0); a++ {
				r.Args = append(r.Args, Bin("1"))
			}
			if name == "eval" || name == "evalsha" {
				r.Args[2] = k
			} else {
				r.Args[0] = k
			}
			cs.Reqs = append(cs.Reqs, r)
			c.Spec.Plans = append(c.Spec.Plans, Plan{Key: k, Reply: Bin(genErrorLine().Draw(t, "err")), DelayMs: rapid.SampledFrom([]int{0, 0, 3, 12}).Draw(t, "errdelay")})
		default: // split request with a non-empty subset of failing fragments
			r := genMultiKeyReq(t, 10, []string{"mget", "del", "mset"})
			name := r.lname()
			step := 1
			if name == "mset" {
				step = 2
			}
			for i := 0; i < len(r.Args); i += step {
				r.Args[i] = append(append(Bin{}, r.Args[i]...), byte('#'), byte('0'+ri))
			}
			frags := refSplit(name, r.Args)
			failing := 0
			for fi, fr := range frags {
				p := Plan{Key: fr.Keys[0], Hold: rapid.Bool().Draw(t, "hold")}
				if rapid.IntRange(0, 1).Draw(t, "fail") == 0 || (fi == len(frags)-1 && failing == 0) {
					p.Reply = Bin(genErrorLine().Draw(t, "ferr"))
					failing++
				}
				if p.Hold {
					held++
				}
				if p.Hold || p.Reply != nil {
					c.Spec.Plans = append(c.Spec.Plans, p)
				}
			}
			cs.Reqs = append(cs.Reqs, r)
		}
	}
	c.Spec.Schedule = genSchedule(t, held)
	c.Spec.GapUs = rapid.SampledFrom([]int{0, 300}).Draw(t, "gapus")
	c.Spec.Clients = []ClientSpec{cs}
	return c
}

func c11Exec(c *c11Case) []Discrepancy {
	f := getFixture("C11", c.Cfg, 3, 1)
	ds := pipeRunCompare("C11", f, &c.Cfg, &c.Spec, 0)
	if len(ds) == 0 {
		if err := f.Witness(5e9); err != nil {
			ds = append(ds, disc("C11/witness-failed", "after the error replies a fresh connection is not served: %v", err))
		}
	}
	if len(ds) > 0 {
		dropFixture(f)
	}
	return ds
}

func c11Classify(c *c11Case) (bool, []string) {
	pi := indexPlans(&c.Spec)
	nt := false
	var cls []string
	for i := range c.Spec.Clients[0].Reqs {
		r := &c.Spec.Clients[0].Reqs[i]
		name := r.lname()
		if !refmodel.MultiKey(name) {
			if p := pi.fragPlan([][]byte{keyOfReq(r)}); p != nil && p.Reply != nil {
				cls = append(cls, "single-error")
			}
			continue
		}
		frags := refSplit(name, r.Args)
		fail := 0
		for _, fr := range frags {
			if p := pi.fragPlan(fr.Keys); p != nil && p.Reply != nil {
				fail++
			}
		}
		cls = append(cls, "split-"+name)
		if fail > 0 && fail < len(frags) {
			nt = true
			cls = append(cls, "proper-subset-of-fragments-fails")
		}
		if fail == len(frags) && len(frags) > 1 {
			cls = append(cls, "all-fragments-fail")
		}
	}
	if len(c.Spec.Schedule) > 1 {
		nt = true
		cls = append(cls, "scheduled-arrival")
	}
	return nt, dedup(cls)
}

func init() {
	registerReplay("C11", func(raw json.RawMessage) ([]Discrepancy, error) {
		var c c11Case
		if err := json.Unmarshal(raw, &c); err != nil {
			return nil, err
		}
		return c11Exec(&c), nil
	})
}

func TestC11(t *testing.T) {
	rec := evidence.For("C11")
	rapidCheck(t, func(t *rapid.T) {
		c := c11Gen(t)
		nt, cls := c11Classify(&c)
		rec.Case(&c, nt, cls...)
		report(t, "C11", &c, c11Exec(&c))
	})
}
