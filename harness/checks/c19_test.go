package checks

import (
	"bytes"
	"encoding/json"
	"fmt"
	"io"
	"testing"

	"pgregory.net/rapid"

	"rcproxy/core/pkg/buffer/elastic"
	"rcproxy/core/pkg/buffer/linkedlist"
	"rcproxy/core/pkg/buffer/ring"

	"verifharness/evidence"
)

// C19: the ring, linked-list and elastic buffers behave as exact FIFO byte queues (model: a []byte).

type bufOp struct {
	Op   string `json:"op"`
	N    int    `json:"n,omitempty"`    // size argument (read / peek / discard sizes, write lengths)
	Seed byte   `json:"seed,omitempty"` // content seed for written data
	Cut  int    `json:"cut,omitempty"`  // chunk size of short readers / writers, split point of vectored writes
}

type c19Case struct {
	Target string  `json:"target"` // ring | list | ering | elastic
	Init   int     `json:"init"`   // ring: initial size; elastic: maxStaticBytes
	Ops    []bufOp `json:"ops"`
}

var c19Sizes = []int{0, 1, 2, 3, 7, 8, 15, 16, 17, 63, 64, 65, 100, 511, 512, 513, 1000, 1023, 1024, 1025, 2048, 4095, 4096, 4097, 5000, 8192, 10000}

// c19Scribble overwrites a slice that was handed to a write operation: the buffers must have copied it (the
// proxy builds the next reply in the same memory).
func c19Scribble(d []byte) {
	for i := range d {
		d[i] ^= 0xa5
	}
}

func c19Data(n int, seed byte, counter *int) []byte {
	b := make([]byte, n)
	for i := range b {
		*counter++
		b[i] = byte(*counter*7) ^ seed
	}
	return b
}

// chunkReader returns its data in chunks of at most cut bytes, then io.EOF.
type chunkReader struct {
	data []byte
	cut  int
}

func (r *chunkReader) Read(p []byte) (int, error) {
	if len(r.data) == 0 {
		return 0, io.EOF
	}
	n := len(p)
	if n > r.cut {
		n = r.cut
	}
	if n > len(r.data) {
		n = len(r.data)
	}
	copy(p, r.data[:n])
	r.data = r.data[n:]
	return n, nil
}

// shortWriter accepts at most budget bytes in total, at most cut per call, never returning an error.
type shortWriter struct {
	got    []byte
	cut    int
	budget int
}

func (w *shortWriter) Write(p []byte) (int, error) {
	n := len(p)
	if n > w.cut {
		n = w.cut
	}
	if n > w.budget {
		n = w.budget
	}
	w.got = append(w.got, p[:n]...)
	w.budget -= n
	return n, nil
}

type fifo interface {
	apply(op *bufOp, model *[]byte, counter *int) (string, bool) // error text, applicable
	buffered() int
	empty() bool
	all() []byte // non-consuming view of the whole content
	extra(model []byte) string
}

func flat(bs ...[]byte) []byte {
	var out []byte
	for _, b := range bs {
		out = append(out, b...)
	}
	return out
}

func minInt(a, b int) int {
	if a < b {
		return a
	}
	return b
}

// ---- ring.Buffer and elastic.RingBuffer share an operation set ---------------------------------------

type ringLike interface {
	Peek(n int) ([]byte, []byte)
	Discard(n int) (int, error)
	Read(p []byte) (int, error)
	ReadByte() (byte, error)
	Write(p []byte) (int, error)
	WriteByte(c byte) error
	WriteString(s string) (int, error)
	Buffered() int
	Len() int
	Cap() int
	Available() int
	Bytes() []byte
	ReadFrom(r io.Reader) (int64, error)
	WriteTo(w io.Writer) (int64, error)
	IsFull() bool
	IsEmpty() bool
	Reset()
}

type ringT struct {
	rb      ringLike
	wrapped bool
	grew    bool
	pooled  bool
}

func (r *ringT) buffered() int { return r.rb.Buffered() }
func (r *ringT) empty() bool   { return r.rb.IsEmpty() }
func (r *ringT) all() []byte   { h, t := r.rb.Peek(0); return flat(h, t) }
func (r *ringT) extra(model []byte) string {
	if r.rb.Cap() > 0 || !r.pooled {
		if r.rb.Buffered()+r.rb.Available() != r.rb.Cap() {
			return fmt.Sprintf("Buffered %d + Available %d != Cap %d", r.rb.Buffered(), r.rb.Available(), r.rb.Cap())
		}
	}
	if r.rb.Len() != r.rb.Cap() {
		return fmt.Sprintf("Len %d != Cap %d", r.rb.Len(), r.rb.Cap())
	}
	if got := r.rb.Bytes(); !bytes.Equal(got, model) {
		return fmt.Sprintf("Bytes() returns %d bytes, model has %d (first difference at %d)", len(got), len(model), firstDiff(got, model))
	}
	if r.rb.IsFull() != (len(model) > 0 && len(model) == r.rb.Cap()) {
		return fmt.Sprintf("IsFull %v with %d of %d bytes", r.rb.IsFull(), len(model), r.rb.Cap())
	}
	return ""
}

func firstDiff(a, b []byte) int {
	n := minInt(len(a), len(b))
	for i := 0; i < n; i++ {
		if a[i] != b[i] {
			return i
		}
	}
	return n
}

func (r *ringT) apply(op *bufOp, model *[]byte, counter *int) (string, bool) {
	m := *model
	capBefore := r.rb.Cap()
	defer func() {
		if r.rb.Cap() > capBefore && capBefore > 0 {
			r.grew = true
		}
		if _, t := r.rb.Peek(0); len(t) > 0 {
			r.wrapped = true
		}
	}()
	switch op.Op {
	case "write":
		d := c19Data(op.N, op.Seed, counter)
		n, err := r.rb.Write(d)
		if n != len(d) || err != nil {
			return fmt.Sprintf("Write(%d) = %d, %v", len(d), n, err), true
		}
		*model = append(m, d...)
		c19Scribble(d)
	case "writestring":
		d := c19Data(op.N, op.Seed, counter)
		n, err := r.rb.WriteString(string(d))
		if n != len(d) || err != nil {
			return fmt.Sprintf("WriteString(%d) = %d, %v", len(d), n, err), true
		}
		*model = append(m, d...)
	case "writebyte":
		if err := r.rb.WriteByte(op.Seed); err != nil {
			return fmt.Sprintf("WriteByte: %v", err), true
		}
		*model = append(m, op.Seed)
	case "read":
		p := make([]byte, op.N)
		n, _ := r.rb.Read(p)
		want := minInt(op.N, len(m))
		if n != want || !bytes.Equal(p[:n], m[:want]) {
			return fmt.Sprintf("Read(%d) returned %d bytes, model prefix has %d; equal=%v", op.N, n, want, bytes.Equal(p[:minInt(n, want)], m[:minInt(n, want)])), true
		}
		*model = m[want:]
	case "readbyte":
		b, err := r.rb.ReadByte()
		if len(m) == 0 {
			if err == nil {
				return "ReadByte on an empty buffer returned no error", true
			}
			return "", true
		}
		if err != nil || b != m[0] {
			return fmt.Sprintf("ReadByte = %d, %v; model says %d", b, err, m[0]), true
		}
		*model = m[1:]
	case "peek":
		h, t := r.rb.Peek(op.N)
		got := flat(h, t)
		want := len(m)
		if op.N > 0 {
			want = minInt(op.N, len(m))
		}
		if !bytes.Equal(got, m[:want]) {
			return fmt.Sprintf("Peek(%d) returned %d bytes, model prefix %d (first difference at %d)", op.N, len(got), want, firstDiff(got, m[:want])), true
		}
	case "discard":
		n, _ := r.rb.Discard(op.N)
		want := minInt(op.N, len(m))
		if n != want {
			return fmt.Sprintf("Discard(%d) = %d, model says %d", op.N, n, want), true
		}
		*model = m[want:]
	case "readfrom":
		d := c19Data(op.N, op.Seed, counter)
		n, err := r.rb.ReadFrom(&chunkReader{data: d, cut: maxInt(1, op.Cut)})
		if n != int64(len(d)) || err != nil {
			return fmt.Sprintf("ReadFrom(%d bytes) = %d, %v", len(d), n, err), true
		}
		*model = append(m, d...)
	case "writeto":
		if len(m) == 0 {
			return "", false
		}
		w := &shortWriter{cut: maxInt(1, op.Cut), budget: maxInt(1, op.N)}
		n, _ := r.rb.WriteTo(w)
		if int(n) != len(w.got) || !bytes.Equal(w.got, m[:minInt(len(w.got), len(m))]) || len(w.got) > len(m) {
			return fmt.Sprintf("WriteTo wrote %d bytes (reported %d) which are not the model's prefix", len(w.got), n), true
		}
		*model = m[len(w.got):]
	case "reset":
		r.rb.Reset()
		*model = nil
	default:
		return "", false
	}
	return "", true
}

func maxInt(a, b int) int {
	if a > b {
		return a
	}
	return b
}

// ---- linkedlist.Buffer ----------------------------------------------------------------------------------

type listT struct {
	lb      linkedlist.Buffer
	partial bool
}

func (l *listT) buffered() int             { return l.lb.Buffered() }
func (l *listT) empty() bool               { return l.lb.IsEmpty() }
func (l *listT) all() []byte               { return flat(l.lb.Peek(0)...) }
func (l *listT) extra(model []byte) string { return "" }

func (l *listT) apply(op *bufOp, model *[]byte, counter *int) (string, bool) {
	m := *model
	switch op.Op {
	case "write", "pushback":
		d := c19Data(op.N, op.Seed, counter)
		l.lb.PushBack(d)
		*model = append(m, d...)
		c19Scribble(d)
	case "pushfront":
		d := c19Data(op.N, op.Seed, counter)
		l.lb.PushFront(d)
		*model = append(append([]byte{}, d...), m...)
		c19Scribble(d)
	case "read":
		p := make([]byte, op.N)
		n, _ := l.lb.Read(p)
		want := minInt(op.N, len(m))
		if n != want || !bytes.Equal(p[:n], m[:want]) {
			return fmt.Sprintf("Read(%d) returned %d bytes, model prefix has %d", op.N, n, want), true
		}
		if want > 0 && want < len(m) {
			l.partial = true
		}
		*model = m[want:]
	case "peek":
		got := flat(l.lb.Peek(op.N)...)
		// Peek returns whole nodes: at least min(n, len) bytes, and always a prefix of the content
		want := len(m)
		if op.N > 0 {
			want = minInt(op.N, len(m))
		}
		if len(got) < want || len(got) > len(m) || !bytes.Equal(got, m[:len(got)]) {
			return fmt.Sprintf("Peek(%d) returned %d bytes which are not a prefix of at least %d model bytes", op.N, len(got), want), true
		}
	case "peekwith":
		pre := c19Data(minInt(op.Cut, 64), op.Seed, counter)
		got := flat(l.lb.PeekWithBytes(op.N, pre[:len(pre)/2], pre[len(pre)/2:])...)
		full := append(append([]byte{}, pre...), m...)
		want := len(full)
		if op.N > 0 {
			want = minInt(op.N, len(full))
		}
		if len(got) < want || len(got) > len(full) || !bytes.Equal(got, full[:len(got)]) {
			return fmt.Sprintf("PeekWithBytes(%d) returned %d bytes which are not a prefix of at least %d bytes", op.N, len(got), want), true
		}
	case "discard":
		n, _ := l.lb.Discard(op.N)
		want := minInt(op.N, len(m))
		if n != want {
			return fmt.Sprintf("Discard(%d) = %d, model says %d", op.N, n, want), true
		}
		if want > 0 && want < len(m) {
			l.partial = true
		}
		*model = m[want:]
	case "readfrom":
		d := c19Data(op.N, op.Seed, counter)
		n, err := l.lb.ReadFrom(&chunkReader{data: d, cut: maxInt(1, op.Cut)})
		if n != int64(len(d)) || err != nil {
			return fmt.Sprintf("ReadFrom(%d bytes) = %d, %v", len(d), n, err), true
		}
		*model = append(m, d...)
	case "writeto":
		if len(m) == 0 {
			return "", false
		}
		w := &shortWriter{cut: maxInt(1, op.Cut), budget: maxInt(1, op.N)}
		n, _ := l.lb.WriteTo(w)
		if int(n) != len(w.got) || len(w.got) > len(m) || !bytes.Equal(w.got, m[:len(w.got)]) {
			return fmt.Sprintf("WriteTo wrote %d bytes (reported %d) which are not the model's prefix", len(w.got), n), true
		}
		*model = m[len(w.got):]
	case "reset":
		l.lb.Reset()
		*model = nil
	default:
		return "", false
	}
	return "", true
}

// ---- elastic.Buffer (ring then list) ---------------------------------------------------------------------

type elasticT struct {
	eb      *elastic.Buffer
	max     int
	spilled bool
	partial bool
}

func (e *elasticT) buffered() int             { return e.eb.Buffered() }
func (e *elasticT) empty() bool               { return e.eb.IsEmpty() }
func (e *elasticT) all() []byte               { return flat(e.eb.Peek(-1)...) }
func (e *elasticT) extra(model []byte) string { return "" }

func (e *elasticT) apply(op *bufOp, model *[]byte, counter *int) (string, bool) {
	m := *model
	switch op.Op {
	case "write":
		d := c19Data(op.N, op.Seed, counter)
		n, err := e.eb.Write(d)
		if n != len(d) || err != nil {
			return fmt.Sprintf("Write(%d) = %d, %v", len(d), n, err), true
		}
		*model = append(m, d...)
		c19Scribble(d)
	case "writev":
		d := c19Data(op.N, op.Seed, counter)
		var bs [][]byte
		rest := d
		cut := maxInt(1, op.Cut)
		for len(rest) > 0 && len(bs) < 8 {
			k := minInt(cut, len(rest))
			bs = append(bs, rest[:k])
			rest = rest[k:]
			cut = cut*2 + 1
		}
		if len(rest) > 0 {
			bs = append(bs, rest)
		}
		n, err := e.eb.Writev(bs)
		if n != len(d) || err != nil {
			return fmt.Sprintf("Writev(%d bytes in %d slices) = %d, %v", len(d), len(bs), n, err), true
		}
		*model = append(m, d...)
		c19Scribble(d)
	case "read":
		p := make([]byte, op.N)
		n, _ := e.eb.Read(p)
		want := minInt(op.N, len(m))
		if n != want || !bytes.Equal(p[:n], m[:want]) {
			return fmt.Sprintf("Read(%d) returned %d bytes, model prefix has %d (first difference at %d)", op.N, n, want, firstDiff(p[:n], m[:want])), true
		}
		*model = m[want:]
	case "peek":
		got := flat(e.eb.Peek(op.N)...)
		want := len(m)
		if op.N > 0 {
			want = minInt(op.N, len(m))
		}
		if len(got) < want || len(got) > len(m) || !bytes.Equal(got, m[:len(got)]) {
			return fmt.Sprintf("Peek(%d) returned %d bytes which are not a prefix of at least %d model bytes (first difference at %d)", op.N, len(got), want, firstDiff(got, m)), true
		}
	case "discard":
		n, _ := e.eb.Discard(op.N)
		want := minInt(op.N, len(m))
		if n != want {
			return fmt.Sprintf("Discard(%d) = %d, model says %d", op.N, n, want), true
		}
		if e.spilled && want > 0 && want < len(m) {
			e.partial = true
		}
		*model = m[want:]
	case "readfrom":
		d := c19Data(op.N, op.Seed, counter)
		n, err := e.eb.ReadFrom(&chunkReader{data: d, cut: maxInt(1, op.Cut)})
		if n != int64(len(d)) || err != nil {
			return fmt.Sprintf("ReadFrom(%d bytes) = %d, %v", len(d), n, err), true
		}
		*model = append(m, d...)
	case "writeto":
		if len(m) == 0 {
			return "", false
		}
		w := &shortWriter{cut: maxInt(1, op.Cut), budget: maxInt(1, op.N)}
		n, _ := e.eb.WriteTo(w)
		if int(n) != len(w.got) || len(w.got) > len(m) || !bytes.Equal(w.got, m[:len(w.got)]) {
			return fmt.Sprintf("WriteTo wrote %d bytes (reported %d) which are not the model's prefix", len(w.got), n), true
		}
		*model = m[len(w.got):]
	case "reset":
		e.eb.Reset(0)
		*model = nil
	case "release":
		e.eb.Release()
		*model = nil
	default:
		return "", false
	}
	if len(*model) > e.max {
		e.spilled = true
	}
	return "", true
}

func c19Exec(c *c19Case) ([]Discrepancy, map[string]bool) {
	flags := map[string]bool{}
	var tgt fifo
	switch c.Target {
	case "ring":
		tgt = &ringT{rb: ring.New(c.Init)}
	case "ering":
		tgt = &ringT{rb: &elastic.RingBuffer{}, pooled: true}
	case "list":
		tgt = &listT{}
	case "elastic":
		eb, err := elastic.New(maxInt(1, c.Init))
		if err != nil {
			return []Discrepancy{disc("C19/harness", "elastic.New: %v", err)}, flags
		}
		tgt = &elasticT{eb: eb, max: maxInt(1, c.Init)}
	default:
		return nil, flags
	}
	var model []byte
	counter := 0
	var ds []Discrepancy
	func() {
		defer func() {
			if r := recover(); r != nil {
				ds = append(ds, disc("C19/"+c.Target+"-panic", "%s buffer panicked: %v", c.Target, r))
			}
		}()
		for i := range c.Ops {
			op := &c.Ops[i]
			msg, ok := tgt.apply(op, &model, &counter)
			if !ok {
				continue
			}
			if msg != "" {
				ds = append(ds, disc("C19/"+c.Target+"-wrong-bytes", "%s buffer, step %d (%s n=%d): %s", c.Target, i, op.Op, op.N, msg))
				return
			}
			if tgt.buffered() != len(model) {
				ds = append(ds, disc("C19/"+c.Target+"-wrong-length", "%s buffer, after step %d (%s n=%d): Buffered() = %d, model holds %d bytes", c.Target, i, op.Op, op.N, tgt.buffered(), len(model)))
				return
			}
			if tgt.empty() != (len(model) == 0) {
				ds = append(ds, disc("C19/"+c.Target+"-wrong-empty", "%s buffer, after step %d (%s): IsEmpty() = %v with %d model bytes", c.Target, i, op.Op, tgt.empty(), len(model)))
				return
			}
			if got := tgt.all(); !bytes.Equal(got, model) {
				ds = append(ds, disc("C19/"+c.Target+"-content", "%s buffer, after step %d (%s n=%d): content differs from the model at byte %d (have %d, model %d bytes)", c.Target, i, op.Op, op.N, firstDiff(got, model), len(got), len(model)))
				return
			}
			if msg := tgt.extra(model); msg != "" {
				ds = append(ds, disc("C19/"+c.Target+"-invariant", "%s buffer, after step %d (%s n=%d): %s", c.Target, i, op.Op, op.N, msg))
				return
			}
		}
	}()
	switch x := tgt.(type) {
	case *ringT:
		flags["wrapped"], flags["grew"] = x.wrapped, x.grew
		flags["nt"] = x.wrapped && x.grew
	case *listT:
		flags["partial-drain"] = x.partial
		flags["nt"] = x.partial
	case *elasticT:
		flags["spilled"], flags["partial-drain-after-spill"] = x.spilled, x.partial
		flags["nt"] = x.spilled && x.partial
	}
	return ds, flags
}

var c19Ops = map[string][]string{
	"ring":    {"write", "write", "write", "writestring", "writebyte", "read", "read", "readbyte", "peek", "discard", "discard", "readfrom", "writeto", "reset"},
	"ering":   {"write", "write", "write", "writestring", "writebyte", "read", "read", "readbyte", "peek", "discard", "discard", "readfrom", "writeto", "reset"},
	"list":    {"pushback", "pushback", "pushback", "pushfront", "read", "read", "peek", "peekwith", "discard", "discard", "readfrom", "writeto", "reset"},
	"elastic": {"write", "write", "writev", "writev", "writev", "read", "read", "peek", "peek", "discard", "discard", "discard", "readfrom", "writeto", "reset", "release"},
}

func c19Gen(t *rapid.T) c19Case {
	c := c19Case{Target: rapid.SampledFrom([]string{"ring", "ering", "list", "elastic", "elastic"}).Draw(t, "target")}
	switch c.Target {
	case "ring":
		c.Init = rapid.SampledFrom([]int{0, 1, 2, 8, 16, 64, 100, 1024, 4096, 8192}).Draw(t, "init")
	case "elastic":
		c.Init = rapid.SampledFrom([]int{16, 17, 64, 100, 512, 1024, 4096}).Draw(t, "maxstatic")
	}
	size := rapid.OneOf(rapid.SampledFrom(c19Sizes), rapid.IntRange(0, 300), rapid.IntRange(0, 20)).AsAny()
	big := rapid.SampledFrom([]int{16384, 65535, 65536, 65537, 131072})
	n := rapid.IntRange(1, 60).Draw(t, "nops")
	for i := 0; i < n; i++ {
		op := bufOp{Op: rapid.SampledFrom(c19Ops[c.Target]).Draw(t, "op")}
		op.N = size.Draw(t, "n").(int)
		if rapid.IntRange(0, 40).Draw(t, "bigp") == 0 {
			op.N = big.Draw(t, "big")
		}
		op.Seed = rapid.Byte().Draw(t, "seed")
		op.Cut = rapid.SampledFrom([]int{1, 2, 7, 64, 511, 512, 513, 4096, 100000}).Draw(t, "cut")
		if (op.Op == "reset" || op.Op == "release") && rapid.IntRange(0, 3).Draw(t, "keepreset") != 0 {
			op.Op = "peek"
		}
		c.Ops = append(c.Ops, op)
	}
	return c
}

func init() {
	registerReplay("C19", func(raw json.RawMessage) ([]Discrepancy, error) {
		var c c19Case
		if err := json.Unmarshal(raw, &c); err != nil {
			return nil, err
		}
		ds, _ := c19Exec(&c)
		return ds, nil
	})
}

func TestC19(t *testing.T) {
	rec := evidence.For("C19")
	rapidCheck(t, func(t *rapid.T) {
		c := c19Gen(t)
		ds, flags := c19Exec(&c)
		var cls []string
		for k, v := range flags {
			if v && k != "nt" {
				cls = append(cls, c.Target+"-"+k)
			}
		}
		cls = append(cls, "target-"+c.Target)
		rec.Case(&c, flags["nt"], cls...)
		report(t, "C19", &c, ds)
	})
}

// FuzzC19 decodes bytes into an operation sequence.
func FuzzC19(f *testing.F) {
	f.Add([]byte{0, 16, 1, 200, 3, 5, 50, 2, 9, 9, 9, 9})
	f.Add([]byte{3, 64, 2, 255, 1, 1, 7, 100, 2, 2, 11, 30, 5, 5})
	f.Fuzz(func(t *testing.T, data []byte) {
		if len(data) < 3 {
			return
		}
		targets := []string{"ring", "ering", "list", "elastic"}
		c := c19Case{Target: targets[int(data[0])%4], Init: int(data[1]) * 8}
		data = data[2:]
		for len(data) >= 4 && len(c.Ops) < 200 {
			ops := c19Ops[c.Target]
			n := int(data[1])
			if data[2]&0x80 != 0 {
				n = c19Sizes[int(data[1])%len(c19Sizes)]
			}
			c.Ops = append(c.Ops, bufOp{Op: ops[int(data[0])%len(ops)], N: n, Seed: data[2], Cut: int(data[3])*5 + 1})
			data = data[4:]
		}
		if ds, _ := c19Exec(&c); len(ds) > 0 {
			report(t, "C19", &c, ds)
		}
	})
}
