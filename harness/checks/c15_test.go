package checks

import (
	"encoding/json"
	"fmt"
	"testing"
	"time"

	"pgregory.net/rapid"

	"verifharness/evidence"
	"verifharness/fakecluster"
	"verifharness/rclient"
	"verifharness/refmodel"
	"verifharness/sut"
)

// C15: if a backend connection is lost, a node leaves the topology, or a redirect names an unknown node while
// requests are queued or in flight, every affected request is answered with an error or its client connection
// is closed; nobody waits forever; the proxy stays up and serves the node again over a new connection.

type c15Case struct {
	Cfg      sut.Config `json:"cfg"`
	Spec     PipeSpec   `json:"spec"`
	Accept   []int      `json:"accept_close_nodes,omitempty"` // nodes that close connections on accept during the case
	KillConn []int      `json:"kill_conns_first,omitempty"`   // nodes whose current connections are closed just before the case
	Down     []int      `json:"down_nodes,omitempty"`         // nodes that are down during the case (connection refused), back up afterwards
}

// c15Build makes one client's pipeline of n GETs (or one split request at position splitAt) with a fault at pos.
func c15Build(ci, n, pos int, fault string, split bool, slotBase int) (ClientSpec, []Plan) {
	var cs ClientSpec
	var plans []Plan
	slots := []int{slotBase, slotBase + 1, slotBase + 2}
	for ri := 0; ri < n; ri++ {
		if split && ri == pos {
			// a split request over two nodes whose fragment on the faulty node fails
			k1 := keyFor(slots[0], ci, ri, 0)
			k2 := keyFor((slotBase+6000)%16384, ci, ri, 1)
			k3 := keyFor(slots[1], ci, ri, 2)
			cs.Reqs = append(cs.Reqs, Req{Name: Bin("mget"), Args: []Bin{k1, k2, k3}})
			plans = append(plans, Plan{Key: k1, Fault: fault, Partial: 3})
			continue
		}
		k := keyFor(slots[ri%3], ci, ri, 0)
		cs.Reqs = append(cs.Reqs, Req{Name: Bin("get"), Args: []Bin{k}})
		if ri == pos {
			plans = append(plans, Plan{Key: k, Fault: fault, Partial: 3})
		}
	}
	return cs, plans
}

var c15Faults = []string{"close", "rst", "partial"}

// c15Enum enumerates fault kind x pipeline length x position x single/split, plus the unknown-redirect and
// accept-close variants at every position.
func c15Enum() []c15Case {
	var out []c15Case
	for _, fault := range c15Faults {
		for n := 1; n <= 6; n++ {
			for pos := 0; pos < n; pos++ {
				for _, split := range []bool{false, true} {
					cs, plans := c15Build(0, n, pos, fault, split, 100)
					out = append(out, c15Case{Cfg: sut.Config{ServerConns: 1}, Spec: PipeSpec{Clients: []ClientSpec{cs}, Plans: plans}})
				}
			}
		}
	}
	for n := 1; n <= 6; n++ {
		for pos := 0; pos < n; pos++ {
			// redirect to an address the proxy does not know, for the request at pos
			cs, _ := c15Build(0, n, -1, "", false, 100)
			k := cs.Reqs[pos].Args[0]
			c := c15Case{Cfg: sut.Config{ServerConns: 1}, Spec: PipeSpec{Clients: []ClientSpec{cs}, Moved: []SlotNode{{Slot: refmodel.KeySlot(k), Node: -1}}}}
			out = append(out, c)
			// the node closes every new connection: the first request needs a fresh dial
			cs2, _ := c15Build(0, n, -1, "", pos%2 == 1, 100)
			out = append(out, c15Case{Cfg: sut.Config{ServerConns: 1}, Spec: PipeSpec{Clients: []ClientSpec{cs2}}, Accept: []int{0}, KillConn: []int{0}})
			if n <= 3 {
				// the same with a password: the new connection dies before its handshake was acknowledged
				out = append(out, c15Case{Cfg: sut.Config{ServerConns: 1, Password: "pw"}, Spec: PipeSpec{Clients: []ClientSpec{cs2}}, Accept: []int{0}, KillConn: []int{0}})
			}
			// the node is down altogether: dialling fails
			cs3, _ := c15Build(0, n, -1, "", pos%2 == 0, 100)
			out = append(out, c15Case{Cfg: sut.Config{ServerConns: 1}, Spec: PipeSpec{Clients: []ClientSpec{cs3}}, Down: []int{0}})
		}
	}
	return out
}

func c15Gen(t *rapid.T) c15Case {
	var c c15Case
	c.Cfg = rapid.SampledFrom(shardPick([]sut.Config{{ServerConns: 1}, {ServerConns: 2}, {ServerConns: 1, Password: "pw"}}, 2)).Draw(t, "cfg")
	if rapid.IntRange(0, 11).Draw(t, "deep") == 0 {
		// the request that loses its backend has more than a thousand requests behind it that are already complete
		k := keyFor(rapid.SampledFrom([]int{100, 5461, 10922}).Draw(t, "deepslot"), 0, 0, 0)
		cs := ClientSpec{Reqs: []Req{{Name: Bin("get"), Args: []Bin{k}}}}
		for i, n := 0, rapid.SampledFrom([]int{1023, 1024, 1100, 1500, 2600}).Draw(t, "behind"); i < n; i++ {
			cs.Reqs = append(cs.Reqs, Req{Name: Bin("ping")})
		}
		c.Spec.Clients = []ClientSpec{cs}
		c.Spec.Plans = []Plan{{Key: k, Fault: rapid.SampledFrom(c15Faults).Draw(t, "deepfault"), Partial: 3}}
		return c
	}
	nc := rapid.IntRange(1, 3).Draw(t, "nclients")
	base := rapid.SampledFrom([]int{100, 5461, 10922, 5459}).Draw(t, "base")
	for ci := 0; ci < nc; ci++ {
		n := rapid.IntRange(1, 12).Draw(t, "n")
		pos := rapid.IntRange(-1, n-1).Draw(t, "pos")
		fault := rapid.SampledFrom(c15Faults).Draw(t, "fault")
		cs, plans := c15Build(ci, n, pos, fault, rapid.Bool().Draw(t, "split"), base)
		if rapid.IntRange(0, 3).Draw(t, "second") == 0 && n > 2 {
			p2 := rapid.IntRange(0, n-1).Draw(t, "pos2")
			if p2 != pos && len(cs.Reqs[p2].Args) == 1 {
				plans = append(plans, Plan{Key: cs.Reqs[p2].Args[0], Fault: rapid.SampledFrom(c15Faults).Draw(t, "fault2"), Partial: 2})
			}
		}
		// hold some healthy replies so that the fault strikes with requests in flight behind it
		for ri := range cs.Reqs {
			if len(cs.Reqs[ri].Args) == 1 && rapid.IntRange(0, 3).Draw(t, "hold") == 0 {
				dup := false
				for _, p := range plans {
					if string(p.Key) == string(cs.Reqs[ri].Args[0]) {
						dup = true
					}
				}
				if !dup {
					plans = append(plans, Plan{Key: cs.Reqs[ri].Args[0], Hold: true})
				}
			}
		}
		// some healthy replies reach the proxy in two reads (also on the connection dialled after the fault)
		for ri := range cs.Reqs {
			if len(cs.Reqs[ri].Args) == 1 && rapid.IntRange(0, 2).Draw(t, "splitreply") == 0 {
				dup := false
				for _, p := range plans {
					if string(p.Key) == string(cs.Reqs[ri].Args[0]) {
						dup = true
					}
				}
				if !dup {
					plans = append(plans, Plan{Key: cs.Reqs[ri].Args[0], SplitAt: rapid.IntRange(1, 6).Draw(t, "splitat")})
				}
			}
		}
		cs.Cuts = genCuts(40*n).Draw(t, "cuts")
		c.Spec.Clients = append(c.Spec.Clients, cs)
		c.Spec.Plans = append(c.Spec.Plans, plans...)
	}
	if rapid.IntRange(0, 7).Draw(t, "nodedown") == 0 {
		c.Down = []int{rapid.IntRange(0, 2).Draw(t, "downnode")}
	}
	if rapid.IntRange(0, 7).Draw(t, "acceptclose") == 0 {
		n := rapid.IntRange(0, 2).Draw(t, "acnode")
		c.Accept, c.KillConn = []int{n}, []int{n}
	}
	if rapid.IntRange(0, 4).Draw(t, "unknownredirect") == 0 {
		cs := &c.Spec.Clients[0]
		k := cs.Reqs[rapid.IntRange(0, len(cs.Reqs)-1).Draw(t, "redirat")].Args[0]
		c.Spec.Moved = append(c.Spec.Moved, SlotNode{Slot: refmodel.KeySlot(k), Node: -1})
	}
	nh := 0
	for _, p := range c.Spec.Plans {
		if p.Hold {
			nh++
		}
	}
	c.Spec.Schedule = genSchedule(t, nh)
	return c
}

func c15Exec(c *c15Case) []Discrepancy {
	f := getFixture("C15", c.Cfg, 3, 0)
	ds := c15Run(f, c)
	if len(ds) > 0 {
		dropFixture(f)
	}
	return ds
}

// c15Judge: every request is resolved (a reply or the connection closed by the proxy) and no reply is wrong:
// each reply is the reference reply or an error.
func c15Judge(prop string, spec *PipeSpec, res *PipeResult, exps [][]Expect) []Discrepancy {
	var ds []Discrepancy
	for ci := range spec.Clients {
		cr := &res.Clients[ci]
		exp := exps[ci]
		if cr.BadResp != nil && !cr.EOF {
			ds = append(ds, disc(prop+"/malformed-reply-stream", "client %d: reply stream malformed after %d replies: %v", ci, len(cr.Replies), cr.BadResp))
			continue
		}
		for i, r := range cr.Replies {
			if i >= len(exp) {
				ds = append(ds, disc(prop+"/extra-replies", "client %d: %d replies for %d requests", ci, len(cr.Replies), len(exp)))
				break
			}
			if !exp[i].matches(r) && !isErrorReply(r) {
				ds = append(ds, disc(prop+"/wrong-reply", "client %d: reply %d is %s; expected %s or an error", ci, i+1, q(r), exp[i]))
				break
			}
		}
		if len(cr.Replies) < len(exp) && !cr.EOF {
			ds = append(ds, disc(prop+"/left-waiting", "client %d: %d of %d requests are still unanswered after the deadline and the connection is still open (next unanswered: %s)", ci, len(exp)-len(cr.Replies), len(exp), q(spec.Clients[ci].Reqs[len(cr.Replies)].Encode())))
		}
	}
	return ds
}

func c15Run(f *Fixture, c *c15Case) []Discrepancy {
	spec := c.Spec
	spec.DeadAddr = fakecluster.DeadAddr()
	// connections opened from here on count as "opened after the fault": the proxy (its once-a-second probe)
	// may re-dial a node right after its connections were killed, before the traffic of the case starts
	faultTime := time.Now()
	for _, n := range c.KillConn {
		f.Cluster.CloseDataConns(n, false)
	}
	if len(c.KillConn) > 0 {
		time.Sleep(30 * time.Millisecond) // let the proxy notice
	}
	for _, n := range c.Accept {
		f.Cluster.SetAcceptClose(n, true)
	}
	for _, n := range c.Down {
		f.Cluster.SetDown(n, true)
	}
	if len(c.Down) > 0 {
		time.Sleep(20 * time.Millisecond)
	}
	rc := &refCtx{Password: c.Cfg.Password, Owners: f.Owners}
	pi := indexPlans(&spec)
	exps := make([][]Expect, len(spec.Clients))
	want := make([]int, len(spec.Clients))
	for i := range spec.Clients {
		exps[i] = expectedFor(&spec.Clients[i], pi, rc)
		want[i] = len(exps[i])
	}
	res := runPipesQuiet(f, &spec, want, 5*time.Second, 0, exps)
	for _, n := range c.Accept {
		f.Cluster.SetAcceptClose(n, false)
	}
	for _, n := range c.Down {
		if err := f.Cluster.SetDown(n, false); err != nil {
			evidence.For("C15").Add("cases_discarded_node_port_lost", 1)
			dropFixture(f)
			return nil
		}
	}
	ds := f.checkAlive("C15", nil)
	if len(ds) > 0 {
		return ds
	}
	ds = c15Judge("C15", &spec, res, exps)
	if len(ds) > 0 {
		return ds
	}
	// afterwards every node is served again, over a connection opened after the fault where one was lost
	var werr error
	for attempt := 0; attempt < 8; attempt++ {
		if werr = f.Witness(5 * time.Second); werr == nil {
			break
		}
		time.Sleep(300 * time.Millisecond) // a node that refused connections may still be in its short retry window
	}
	if werr != nil {
		return []Discrepancy{disc("C15/not-served-afterwards", "after the fault a fresh client is not served: %v", werr)}
	}
	faulty := map[int]bool{}
	for _, p := range spec.Plans {
		if p.Fault != "" {
			faulty[f.Owners[refmodel.KeySlot(p.Key)].Master] = true
		}
	}
	for _, n := range c.Accept {
		faulty[n] = true
	}
	for _, n := range c.Down {
		faulty[n] = true
	}
	for node := range faulty {
		if c.Cfg.ServerConns > 1 {
			break // with several connections per node a surviving one may serve the witness
		}
		ok := false
		for _, ci := range f.Cluster.Conns() {
			if ci.Node == node && ci.Data > 0 && !ci.Closed && ci.Opened.After(faultTime) {
				ok = true
			}
		}
		if !ok {
			// the fault may not have struck (e.g. the request was answered with an error before reaching the node)
			struck := false
			for _, ci := range f.Cluster.Conns() {
				if ci.Node == node && ci.Closed && ci.Data > 0 {
					struck = true
				}
			}
			forced := false
			for _, n := range append(append([]int{}, c.Accept...), c.Down...) {
				if n == node {
					forced = true
				}
			}
			if struck || forced {
				ds = append(ds, disc("C15/no-new-connection", "node %d lost its connection during the case but serves the witness over no connection opened afterwards", node))
			}
		}
	}
	return ds
}

func c15Classify(c *c15Case) (bool, []string) {
	var cls []string
	nt := false
	for _, p := range c.Spec.Plans {
		if p.Fault != "" {
			cls = append(cls, "fault-"+p.Fault)
			nt = true
		}
		if p.Hold {
			cls = append(cls, "held-replies-in-flight")
		}
	}
	if len(c.Spec.Moved) > 0 {
		cls = append(cls, "redirect-to-unknown-node")
		nt = true
	}
	if len(c.Accept) > 0 {
		cls = append(cls, "node-closes-on-accept")
		nt = true
	}
	if len(c.Down) > 0 {
		cls = append(cls, "node-down-connection-refused")
		nt = true
	}
	for ci := range c.Spec.Clients {
		for ri := range c.Spec.Clients[ci].Reqs {
			if c.Spec.Clients[ci].Reqs[ri].lname() == "mget" {
				cls = append(cls, "split-request-hit")
			}
		}
	}
	cls = append(cls, fmt.Sprintf("clients-%d", len(c.Spec.Clients)))
	return nt, dedup(cls)
}

func init() {
	registerReplay("C15", func(raw json.RawMessage) ([]Discrepancy, error) {
		var rc c15RemoveCase
		if err := json.Unmarshal(raw, &rc); err == nil && rc.Remove {
			return c15RemoveExec(&rc), nil
		}
		var c c15Case
		if err := json.Unmarshal(raw, &c); err != nil {
			return nil, err
		}
		return c15Exec(&c), nil
	})
}

// TestC15Enum runs the enumerated fault points (this shard's share).
func TestC15Enum(t *testing.T) {
	rec := evidence.For("C15")
	all := c15Enum()
	shards, me := envInt("VERIF_SHARDS", 1), envInt("VERIF_SHARD", 0)
	for i := range all {
		if i%shards != me {
			continue
		}
		c := all[i]
		nt, cls := c15Classify(&c)
		rec.Case(&c, nt, append(cls, "enumerated")...)
		report(t, "C15", &c, c15Exec(&c))
	}
	rec.Add("enumerated_fault_points_total", len(all))
}

func TestC15(t *testing.T) {
	rec := evidence.For("C15")
	rapidCheck(t, func(t *rapid.T) {
		c := c15Gen(t)
		nt, cls := c15Classify(&c)
		rec.Case(&c, nt, cls...)
		report(t, "C15", &c, c15Exec(&c))
	})
}

// ---- node leaves the topology with requests in flight -----------------------------------------------------

type c15RemoveCase struct {
	Remove  bool       `json:"remove_node"`
	Cfg     sut.Config `json:"cfg"`
	Victim  int        `json:"victim"`   // master index 0..3
	Inherit bool       `json:"inherit"`  // its slots go to another master (else nobody)
	Reqs    int        `json:"requests"` // requests in flight at the victim per client
	Clients int        `json:"clients"`
	Split   bool       `json:"split"`
}

func c15RemoveExec(c *c15RemoveCase) []Discrepancy {
	f := getFixture("C15rm", c.Cfg, 4, 0)
	ds := c15RemoveRun(f, c)
	if len(ds) > 0 {
		dropFixture(f)
		return ds
	}
	// restore the full topology for the next case
	f.Topo.Install(f.Cluster)
	if err := f.WaitRouting(12 * time.Second); err != nil {
		dropFixture(f)
	}
	return nil
}

func c15RemoveRun(f *Fixture, c *c15RemoveCase) []Discrepancy {
	victim := c.Victim % 4
	vslot := f.Topo.Nodes[victim].Slots[0][0] + 5
	other := (victim + 1) % 4
	oslot := f.Topo.Nodes[other].Slots[0][0] + 5
	gates := &gateSet{}
	f.Cluster.ResetLog()
	f.Cluster.SetHandler(func(req *fakecluster.Request) fakecluster.Action {
		a := fakecluster.Action{Reply: fakecluster.EchoReply(req)}
		if req.Node == victim {
			a.Gate = gates.add(req.Seq)
		}
		return a
	})
	defer f.Cluster.SetHandler(nil)
	defer gates.releaseAll()
	var clients []*rclient.Client
	var wants []int
	for ci := 0; ci < c.Clients; ci++ {
		cl, err := rclient.Dial(f.Proxy.Addr(), "")
		if err != nil {
			return []Discrepancy{disc("C15/cannot-connect", "%v", err)}
		}
		defer cl.Close()
		var stream []byte
		n := 0
		for ri := 0; ri < c.Reqs; ri++ {
			stream = append(stream, refmodel.EncodeCmdS("get", string(keyFor(vslot, ci, ri, 0)))...)
			n++
			if c.Split && ri == 0 {
				stream = append(stream, refmodel.EncodeCmdS("mget", string(keyFor(vslot, ci, 50, 0)), string(keyFor(oslot, ci, 50, 1)))...)
				n++
			}
		}
		stream = append(stream, refmodel.EncodeCmdS("get", string(keyFor(oslot, ci, 99, 0)))...)
		n++
		cl.Write(stream)
		clients = append(clients, cl)
		wants = append(wants, n)
	}
	// wait until the victim holds the requests
	for i := 0; i < 400; i++ {
		if total, _ := gates.counts(); total >= c.Clients*c.Reqs {
			break
		}
		time.Sleep(5 * time.Millisecond)
	}
	// the victim leaves
	t2 := f.Topo.Clone()
	var keep []fakecluster.TNode
	for _, n := range t2.Nodes {
		if n.Node == victim {
			continue
		}
		if n.Node == other && c.Inherit {
			n.Slots = append(n.Slots, f.Topo.Nodes[victim].Slots...)
		}
		keep = append(keep, n)
	}
	t2.Nodes = keep
	t2.Install(f.Cluster)
	removedAt := time.Now()
	// every client must be resolved within the time the proxy needs to adopt the topology (a few seconds) + D
	deadline := 12 * time.Second
	var ds []Discrepancy
	for ci, cl := range clients {
		left := deadline - time.Since(removedAt)
		if left < 100*time.Millisecond {
			left = 100 * time.Millisecond
		}
		cl.WaitReplies(wants[ci], left)
	}
	ds = f.checkAlive("C15", ds)
	for ci, cl := range clients {
		st := cl.Snapshot()
		if len(st.Replies) < wants[ci] && !st.EOF {
			// witness rule
			if err := f.Witness(5 * time.Second); err == nil {
				cl.WaitReplies(wants[ci], time.Second)
				st = cl.Snapshot()
			}
		}
		if len(st.Replies) < wants[ci] && !st.EOF {
			ds = append(ds, disc("C15/left-waiting-after-node-removal", "client %d: node %d left the topology with its requests in flight; %.0f s later %d of %d requests are unanswered and the connection is open", ci, victim, time.Since(removedAt).Seconds(), wants[ci]-len(st.Replies), wants[ci]))
			break
		}
		for i, r := range st.Replies {
			if !isErrorReply(r.Raw) && len(r.Raw) > 0 && r.Raw[0] != '$' && r.Raw[0] != '*' {
				ds = append(ds, disc("C15/wrong-reply", "client %d: reply %d is %s", ci, i+1, q(r.Raw)))
			}
		}
	}
	return ds
}

func TestC15Remove(t *testing.T) {
	rec := evidence.For("C15")
	rapidCheck(t, func(t *rapid.T) {
		c := c15RemoveCase{Remove: true, Cfg: sut.Config{ServerConns: rapid.SampledFrom([]int{1, 2}).Draw(t, "sconns")},
			Victim: rapid.IntRange(0, 3).Draw(t, "victim"), Inherit: rapid.Bool().Draw(t, "inherit"),
			Reqs: rapid.IntRange(1, 5).Draw(t, "reqs"), Clients: rapid.IntRange(1, 3).Draw(t, "clients"), Split: rapid.Bool().Draw(t, "split")}
		rec.Case(&c, true, "node-removed-with-requests-in-flight")
		report(t, "C15", &c, c15RemoveExec(&c))
	})
}
