package checks

import (
	"encoding/json"
	"fmt"
	"sort"
	"testing"
	"time"

	"pgregory.net/rapid"

	"verifharness/evidence"
	"verifharness/fakecluster"
	"verifharness/rclient"
	"verifharness/refmodel"
	"verifharness/sut"
)

// C04: every forwarded request or fragment goes to a node of the replica set owning the key's slot: writes,
//      cursor scans and scripts to the master, reads to the master or a replica, always the master when
//      replica reads are disabled; AUTH / READONLY precede the first request on a backend connection.
// C20: with several healthy replicas and replica reads enabled, a long run of reads reaches every replica.

// topoSpec is a generated cluster layout: masters with slot ranges and replica counts.
type topoSpec struct {
	Reps     []int      `json:"replicas_per_master"`
	Ranges   [][3]int   `json:"ranges"` // start, end, owner master (-1 = nobody)
	AddrForm int        `json:"addr_form"`
	Rotate   int        `json:"rotate,omitempty"`  // line order of the CLUSTER NODES text
	Reverse  bool       `json:"reverse,omitempty"` // replicas listed before masters
	Cfg      sut.Config `json:"cfg"`
}

func (ts *topoSpec) nodes() int {
	n := len(ts.Reps)
	for _, r := range ts.Reps {
		n += r
	}
	return n
}

// build creates the fake cluster and the topology model: masters are nodes 0..m-1, replicas follow.
func (ts *topoSpec) build() (*fakecluster.Cluster, *fakecluster.Topo, error) {
	cl, err := fakecluster.New(ts.nodes())
	if err != nil {
		return nil, nil, err
	}
	t := &fakecluster.Topo{AddrForm: ts.AddrForm, Rotate: ts.Rotate, Reverse: ts.Reverse}
	m := len(ts.Reps)
	for i := 0; i < m; i++ {
		n := fakecluster.TNode{ID: cl.Nodes[i].ID, Node: i, Master: true}
		for _, r := range ts.Ranges {
			if r[2] == i {
				n.Slots = append(n.Slots, [2]int{r[0], r[1]})
			}
		}
		t.Nodes = append(t.Nodes, n)
	}
	idx := m
	for i := 0; i < m; i++ {
		for j := 0; j < ts.Reps[i]; j++ {
			t.Nodes = append(t.Nodes, fakecluster.TNode{ID: cl.Nodes[idx].ID, Node: idx, MasterID: cl.Nodes[i].ID})
			idx++
		}
	}
	t.SetInfoFromTopo(cl)
	return cl, t, nil
}

func genTopoSpec(t *rapid.T, minReps, maxReps int, gaps bool) topoSpec {
	var ts topoSpec
	m := rapid.IntRange(1, 5).Draw(t, "masters")
	total := m
	for i := 0; i < m; i++ {
		r := rapid.IntRange(minReps, maxReps).Draw(t, "reps")
		ts.Reps = append(ts.Reps, r)
		total += r
	}
	for total < 3 { // the proxy needs three usable nodes
		ts.Reps[total%m]++
		total++
	}
	// cut the slot space into segments
	ncuts := rapid.IntRange(m-1, m+6).Draw(t, "ncuts")
	cutset := map[int]bool{}
	for i := 0; i < ncuts; i++ {
		c := rapid.IntRange(1, 16383).Draw(t, "cut")
		cutset[c] = true
		if rapid.IntRange(0, 3).Draw(t, "single") == 0 && c < 16383 {
			cutset[c+1] = true // a single-slot range
		}
	}
	for k := 1; len(cutset) < m-1; k++ {
		cutset[k*16384/(m+1)] = true // drawn cuts coincided: make sure there is a segment per master
	}
	var cuts []int
	for c := range cutset {
		cuts = append(cuts, c)
	}
	sort.Ints(cuts)
	start := 0
	seg := 0
	owned := make([]bool, m)
	add := func(s, e int) {
		owner := seg % m
		if seg >= m {
			owner = rapid.IntRange(0, m-1).Draw(t, "owner")
			if gaps && rapid.IntRange(0, 5).Draw(t, "gap") == 0 {
				owner = -1
			}
		}
		if owner >= 0 {
			owned[owner] = true
		}
		ts.Ranges = append(ts.Ranges, [3]int{s, e, owner})
		seg++
	}
	for _, c := range cuts {
		add(start, c-1)
		start = c
	}
	add(start, 16383)
	for i, ok := range owned {
		if !ok {
			// cannot happen: the first m segments go to the masters in turn
			panic(fmt.Sprintf("master %d without slots", i))
		}
	}
	ts.AddrForm = rapid.SampledFrom([]int{3, 4, 7}).Draw(t, "addrform")
	ts.Rotate = rapid.IntRange(0, 12).Draw(t, "rotate")
	ts.Reverse = rapid.Bool().Draw(t, "reverse")
	return ts
}

type c04Case struct {
	Failover bool     `json:"failover_then_again"` // after the first batch a replica is promoted in place and a second batch is judged
	Topo     topoSpec `json:"topo"`
	Seeds    []int    `json:"seeds"`
	Slots    []int    `json:"slots"` // probe slots beyond the range boundaries
	Mask     uint64   `json:"mask"`  // varies command choice / letter case / tagging deterministically
}

func c04Gen(t *rapid.T) c04Case {
	var c c04Case
	c.Topo = genTopoSpec(t, 0, 3, true)
	c.Topo.Cfg = rapid.SampledFrom([]sut.Config{{}, {DisableSlave: true}, {Password: "hunter2"}, {Password: "pw", DisableSlave: true}, {ServerConns: 2}}).Draw(t, "cfg")
	n := c.Topo.nodes()
	c.Seeds = []int{rapid.IntRange(0, n-1).Draw(t, "seed0"), rapid.IntRange(0, n-1).Draw(t, "seed1")}
	ns := 60
	if thorough() {
		ns = 400
	}
	for i := 0; i < ns; i++ {
		c.Slots = append(c.Slots, rapid.IntRange(0, 16383).Draw(t, "slot"))
	}
	c.Mask = rapid.Uint64().Draw(t, "mask")
	c.Failover = rapid.IntRange(0, 2).Draw(t, "failover") == 0
	return c
}

// c04Batch builds the probe pipeline: for every probe slot a few commands of the table, cycling through all of them.
func c04Batch(c *c04Case) []Req {
	names := docs.SupportedNames()
	slotset := map[int]bool{}
	for _, r := range c.Topo.Ranges {
		for _, s := range []int{r[0] - 1, r[0], r[0] + 1, r[1] - 1, r[1], r[1] + 1} {
			if s >= 0 && s <= 16383 {
				slotset[s] = true
			}
		}
	}
	for _, s := range c.Slots {
		slotset[s] = true
	}
	var slots []int
	for s := range slotset {
		slots = append(slots, s)
	}
	sort.Ints(slots)
	var reqs []Req
	ni := int(c.Mask % uint64(len(names)))
	for i, s := range slots {
		for k := 0; k < 3; k++ {
			name := names[ni%len(names)]
			ni++
			if refmodel.Local(name) {
				continue
			}
			key := Bin(refmodel.KeyInSlot(s, fmt.Sprintf("p%dk%d", i, k)))
			if (c.Mask>>uint(k))&1 == 1 {
				// tag in the middle of the key
				key = Bin(fmt.Sprintf("pre%d{%s}post%d", i, refmodel.TagForSlot(s), k))
			}
			if (c.Mask>>uint(24+k))&1 == 1 {
				// a key whose hashed part is not ASCII (UTF-8 text)
				key = Bin(fmt.Sprintf("{%s}\u00e9%d.%d", refmodel.WideTagForSlot(s), i, k))
			}
			cased := []byte(name)
			if (c.Mask>>uint(8+k))&1 == 1 {
				cased = []byte(refmodel.ASCIILower(name))
				for j := range cased {
					if (c.Mask>>uint(j%60))&1 == 1 && cased[j] >= 'a' && cased[j] <= 'z' {
						cased[j] -= 32
					}
				}
			}
			r := Req{Name: cased}
			nargs := refmodel.ValidNargs(name, int(c.Mask>>uint(16+k))&1)
			for a := 0; a < nargs; a++ {
				r.Args = append(r.Args, Bin("1"))
			}
			switch name {
			case "eval", "evalsha":
				r.Args[2] = key
			case "mset":
				r.Args[0] = key
			default:
				r.Args[0] = key
			}
			reqs = append(reqs, r)
		}
	}
	return reqs
}

func c04Exec(c *c04Case) []Discrepancy {
	cl, topo, err := c.Topo.build()
	if err != nil {
		harnessProblem("cannot build the fake cluster: %v", err)
	}
	defer cl.Close()
	var f *Fixture
	for attempt := 0; attempt < 3; attempt++ {
		f, err = startFixtureWith(cl, topo, c.Topo.Cfg, c.Seeds, nil)
		if err == nil {
			break
		}
		time.Sleep(time.Second)
	}
	if err != nil {
		// a proxy that cannot come up against a valid topology is a finding of its own
		return []Discrepancy{disc("C04/proxy-does-not-serve", "the proxy did not start serving the generated topology: %v", err)}
	}
	defer f.Proxy.Stop()
	evidence.For("C04").Add("proxy_starts", 1)
	return c04Run(f, c)
}

func c04Run(f *Fixture, c *c04Case) []Discrepancy {
	ds := c04Judge(f, c, c04Batch(c))
	if len(ds) > 0 || !c.Failover {
		return ds
	}
	// a replica is promoted in place: the old master becomes its replica (both nodes stay connected)
	var rep, old *fakecluster.TNode
	for i := range f.Topo.Nodes {
		n := &f.Topo.Nodes[i]
		if n.Master {
			continue
		}
		for j := range f.Topo.Nodes {
			if f.Topo.Nodes[j].Master && f.Topo.Nodes[j].ID == n.MasterID {
				rep, old = n, &f.Topo.Nodes[j]
			}
		}
		if rep != nil {
			break
		}
	}
	if rep == nil {
		return nil
	}
	oldID := old.ID
	rep.Master, rep.Slots, rep.MasterID = true, old.Slots, ""
	old.Master, old.Slots, old.MasterID = false, nil, rep.ID
	for i := range f.Topo.Nodes {
		if n := &f.Topo.Nodes[i]; !n.Master && n.MasterID == oldID && n != old {
			n.MasterID = rep.ID
		}
	}
	since := time.Now()
	f.Topo.SetInfoFromTopo(f.Cluster)
	f.Topo.Clone().Install(f.Cluster)
	f.Owners = f.Topo.Expected(nil)
	round := 1000
	if msg := c14Converge(f, f.Owners, c14Slots(f.Topo), &round, 10*time.Second); msg != "" {
		return append(f.checkAlive("C04", nil), disc("C04/not-routed-by-new-topology", "10 s after a replica was promoted in place the routing still differs from the description: %s", msg))
	}
	evidence.For("C04").Add("second_batches_after_failover", 1)
	reqs := c04Batch(c)
	if len(reqs) > 240 {
		reqs = reqs[:240]
	}
	ds = c04JudgeSince(f, c, reqs, since)
	for i := range ds {
		ds[i].Msg = "after a replica was promoted in place: " + ds[i].Msg
	}
	return ds
}

func c04Judge(f *Fixture, c *c04Case, reqs []Req) []Discrepancy {
	return c04JudgeSince(f, c, reqs, time.Time{})
}

// c04JudgeSince judges a batch; the per-connection handshake order is only demanded of connections opened after since.
func c04JudgeSince(f *Fixture, c *c04Case, reqs []Req, since time.Time) []Discrepancy {
	cfg := c.Topo.Cfg
	var ds []Discrepancy
	// several connections, each a slice of the batch, so that backend connections are shared
	const per = 400
	for off := 0; off < len(reqs); off += per {
		end := off + per
		if end > len(reqs) {
			end = len(reqs)
		}
		spec := PipeSpec{Clients: []ClientSpec{{Reqs: reqs[off:end]}}}
		ds = pipeRunCompareKeepLog("C04", f, &cfg, &spec, off == 0)
		if len(ds) > 0 {
			return ds
		}
	}
	masterOf := map[int]bool{}
	for i := range f.Topo.Nodes {
		if f.Topo.Nodes[i].Master {
			masterOf[f.Topo.Nodes[i].Node] = true
		}
	}
	for _, lr := range f.Cluster.Log() {
		ks := keysOf(lr.Name, lr.Args)
		if len(ks) == 0 {
			continue
		}
		slot := refmodel.KeySlot(ks[0])
		own := f.Owners[slot]
		isRep := false
		for _, r := range own.Replicas {
			if r == lr.Node {
				isRep = true
			}
		}
		switch {
		case lr.Node == own.Master:
		case isRep && cfg.DisableSlave:
			ds = append(ds, disc("C04/replica-used-although-disabled", "%s for slot %d went to replica node %d although replica reads are disabled", lr.Name, slot, lr.Node))
		case isRep && refmodel.MasterOnly(lr.Name):
			ds = append(ds, disc("C04/master-only-command-at-replica", "%s for slot %d went to replica node %d; writes, scans and scripts belong to the master (node %d)", lr.Name, slot, lr.Node, own.Master))
		case isRep:
		default:
			ds = append(ds, disc("C04/wrong-replica-set", "%s for slot %d went to node %d; the slot belongs to master %d with replicas %v", lr.Name, slot, lr.Node, own.Master, own.Replicas))
		}
		if isRep && !lr.ReadOnly {
			ds = append(ds, disc("C04/replica-connection-not-readonly", "%s arrived at replica node %d on a connection that never sent READONLY", lr.Name, lr.Node))
		}
		if cfg.Password != "" && !lr.Authed {
			ds = append(ds, disc("C04/not-authenticated", "%s arrived at node %d on a connection that had not authenticated", lr.Name, lr.Node))
		}
		if len(ds) > 0 {
			return ds
		}
	}
	// handshake order on every backend connection
	for _, ci := range f.Cluster.Conns() {
		if len(ci.Events) == 0 || ci.Opened.Before(since) {
			continue
		}
		if cfg.Password != "" && ci.Events[0] != "auth" {
			ds = append(ds, disc("C04/auth-not-first", "connection %d to node %d started with %q although a password is configured (events %v)", ci.ID, ci.Node, ci.Events[0], headStr(ci.Events, 6)))
			return ds
		}
		if !masterOf[ci.Node] && ci.Data > 0 {
			seenRO := false
			for _, e := range ci.Events {
				if e == "readonly" {
					seenRO = true
				}
				if len(e) > 5 && e[:5] == "data:" {
					if !seenRO {
						ds = append(ds, disc("C04/readonly-not-before-data", "connection %d to replica node %d carried %s before READONLY (events %v)", ci.ID, ci.Node, e, headStr(ci.Events, 6)))
						return ds
					}
					break
				}
			}
		}
	}
	return ds
}

func headStr(s []string, n int) []string {
	if len(s) > n {
		return s[:n]
	}
	return s
}

// pipeRunCompareKeepLog is pipeRunCompare that keeps the backend log of earlier calls unless reset is true.
func pipeRunCompareKeepLog(prop string, f *Fixture, cfg *sut.Config, spec *PipeSpec, reset bool) []Discrepancy {
	var keep []*fakecluster.Request
	if !reset {
		keep = f.Cluster.Log()
	}
	ds := pipeRunCompare(prop, f, cfg, spec, 0)
	if !reset {
		f.Cluster.PrependLog(keep)
	}
	return ds
}

func c04Classify(c *c04Case) (bool, []string) {
	var cls []string
	reps := 0
	for _, r := range c.Topo.Reps {
		reps += r
	}
	gap := false
	single := false
	for _, r := range c.Topo.Ranges {
		if r[2] < 0 {
			gap = true
		}
		if r[0] == r[1] {
			single = true
		}
	}
	cls = append(cls, fmt.Sprintf("masters-%d", len(c.Topo.Reps)), fmt.Sprintf("addrform-%d", c.Topo.AddrForm))
	if reps > 0 {
		cls = append(cls, "has-replicas")
	}
	if gap {
		cls = append(cls, "unowned-range")
	}
	if single {
		cls = append(cls, "single-slot-range")
	}
	if c.Topo.Cfg.DisableSlave {
		cls = append(cls, "replicas-disabled")
	}
	if c.Topo.Cfg.Password != "" {
		cls = append(cls, "password")
	}
	if c.Failover && reps > 0 {
		cls = append(cls, "second-batch-after-failover-in-place")
	}
	return reps > 0, cls
}

func TestC04(t *testing.T) {
	rec := evidence.For("C04")
	rapidCheck(t, func(t *rapid.T) {
		c := c04Gen(t)
		nt, cls := c04Classify(&c)
		rec.Case(&c, nt, cls...)
		rec.Add("requests_routed", len(c04Batch(&c)))
		report(t, "C04", &c, c04Exec(&c))
	})
}

// ---- C20 -------------------------------------------------------------------------------------------------

type c20Case struct {
	Topo  topoSpec `json:"topo"`
	Reads int      `json:"reads_per_master"`
	Mask  uint64   `json:"mask"`
	Shape string   `json:"shape,omitempty"` // force one traffic shape (default: chosen by mask and master)
	// Outage: before the reads are counted, one replica of a master with two or more (the one named in the
	// proxy's seed list when that master is the first) refuses connections while a few reads are sent, stays
	// down a moment longer, comes back, and gets 11 s to be noticed: it is a healthy replica again
	Outage bool `json:"outage_first,omitempty"`
	// Failover: before the reads are counted, the first master that has a replica swaps roles with it in place
	// (a manual failover: both nodes stay up); the demoted master is a healthy replica from then on
	Failover bool `json:"failover_first,omitempty"`
	// Syncing: one replica is still loading its data set when the proxy first sees it (INFO: loading), and is
	// healthy from 1.5 s after start; 3.5 s later it counts as a healthy replica
	Syncing bool `json:"syncing_at_first_sight,omitempty"`
}

func c20Gen(t *rapid.T) c20Case {
	var c c20Case
	c.Topo = genTopoSpec(t, 2, 4, false)
	if len(c.Topo.Reps) > 3 {
		c.Topo.Reps = c.Topo.Reps[:3]
		for i := range c.Topo.Ranges {
			if c.Topo.Ranges[i][2] >= 3 {
				c.Topo.Ranges[i][2] = i % 3
			}
		}
	}
	c.Topo.Cfg = rapid.SampledFrom([]sut.Config{{}, {ServerConns: 2}, {Password: "pw"}}).Draw(t, "cfg")
	c.Reads = 300
	c.Mask = rapid.Uint64().Draw(t, "mask")
	c.Outage = rapid.IntRange(0, 3).Draw(t, "outage") == 0
	c.Failover = !c.Outage && rapid.IntRange(0, 2).Draw(t, "failover") == 0
	c.Syncing = !c.Outage && !c.Failover && c.Topo.nodes() >= 4 && rapid.IntRange(0, 2).Draw(t, "syncing") == 0
	return c
}

var c20ReadCmds = []string{"get", "strlen", "exists", "ttl", "hgetall", "llen", "scard", "zcard", "type", "hlen"}

func c20Exec(c *c20Case) []Discrepancy {
	cl, topo, err := c.Topo.build()
	if err != nil {
		harnessProblem("cannot build the fake cluster: %v", err)
	}
	defer cl.Close()
	var f *Fixture
	var excluded map[int]bool
	syncing := -1
	if c.Syncing {
		// the last replica of the description (never the one named in the seed list when there are others)
		for i := range topo.Nodes {
			if !topo.Nodes[i].Master {
				syncing = topo.Nodes[i].Node
			}
		}
		if syncing >= 0 {
			cl.SetInfo(syncing, true, true, true)
			excluded = map[int]bool{syncing: true}
		}
	}
	for attempt := 0; attempt < 3; attempt++ {
		f, err = startFixtureWith(cl, topo, c.Topo.Cfg, []int{0, len(c.Topo.Reps)}, excluded)
		if err == nil {
			break
		}
		time.Sleep(time.Second)
	}
	if err != nil {
		return []Discrepancy{disc("C20/proxy-does-not-serve", "the proxy did not start serving the generated topology: %v", err)}
	}
	defer f.Proxy.Stop()
	evidence.For("C20").Add("proxy_starts", 1)
	cfg := c.Topo.Cfg
	var ds []Discrepancy
	if syncing >= 0 {
		time.Sleep(1500 * time.Millisecond)
		cl.SetInfo(syncing, false, true, true)
		f.Owners = f.Topo.Expected(nil)
		evidence.For("C20").Add("replicas_that_finished_syncing_after_start", 1)
		time.Sleep(3500 * time.Millisecond)
	}
	if c.Outage {
		if msg := c20Outage(f, c); msg == caseDiscarded {
			return nil
		} else if msg != "" {
			return append(f.checkAlive("C20", nil), disc("C20/proxy-does-not-serve", "%s", msg))
		}
	}
	if c.Failover {
		c20Failover(f)
	}
	for mi := range c.Topo.Reps {
		var slots []int
		for _, r := range c.Topo.Ranges {
			if r[2] == mi {
				slots = append(slots, r[0], r[1], (r[0]+r[1])/2)
			}
		}
		if len(slots) == 0 {
			continue
		}
		// several traffic shapes, each judged on its own: the spread must not depend on what else the client sends
		shapes := []string{"reads-with-occasional-writes", "alternating-read-write", "alternating-read-ping", "two-reads-one-write", "three-reads-one-ping", "reads-in-two-segments"}
		shape := shapes[(int(c.Mask>>8)+mi)%len(shapes)]
		if c.Shape != "" {
			shape = c.Shape
		}
		var reqs []Req
		for i := 0; i < c.Reads; i++ {
			s := slots[(i+int(c.Mask%7))%len(slots)]
			name := c20ReadCmds[(i+int(c.Mask%5))%len(c20ReadCmds)]
			reqs = append(reqs, Req{Name: Bin(name), Args: []Bin{Bin(refmodel.KeyInSlot(s, fmt.Sprintf("rd%dm%d", i, mi)))}})
			wr := Req{Name: Bin("set"), Args: []Bin{Bin(refmodel.KeyInSlot(s, fmt.Sprintf("wr%dm%d", i, mi))), Bin("v")}}
			switch shape {
			case "reads-with-occasional-writes", "reads-in-two-segments":
				if i%10 == 0 {
					reqs = append(reqs, wr)
				}
			case "alternating-read-write":
				reqs = append(reqs, wr)
			case "alternating-read-ping":
				reqs = append(reqs, Req{Name: Bin("ping")})
			case "two-reads-one-write":
				if i%2 == 1 {
					reqs = append(reqs, wr)
				}
			case "three-reads-one-ping":
				if i%3 == 2 {
					reqs = append(reqs, Req{Name: Bin("ping")})
				}
			}
		}
		evidence.For("C20").Add("shape-"+shape, 1)
		// one client connection per shape (ids of one connection's requests are consecutive inside the proxy)
		spec := PipeSpec{Clients: []ClientSpec{{Reqs: reqs}}}
		if shape == "reads-in-two-segments" {
			// every request arrives in two TCP segments
			var cuts []int
			for i := range reqs {
				n := len(reqs[i].Encode())
				cuts = append(cuts, n/2, n-n/2)
			}
			spec.Clients[0].Cuts = cuts
			spec.Clients[0].PauseUs = 150
		}
		ds = pipeRunCompare("C20", f, &cfg, &spec, 0)
		if len(ds) > 0 {
			return ds
		}
		got := map[int]int{}
		own := f.Owners[slots[0]]
		for _, lr := range f.Cluster.Log() {
			if lr.Name == "set" {
				if lr.Node != own.Master {
					ds = append(ds, disc("C20/write-not-at-master", "a SET for master %d arrived at node %d (traffic shape %s)", own.Master, lr.Node, shape))
					return ds
				}
				continue
			}
			if lr.Node != own.Master && !lr.ReadOnly {
				// a replica only serves reads on connections switched to read-only mode (a real one answers -MOVED)
				evidence.For("C20").Add("reads_at_a_replica_without_readonly_not_counted", 1)
				continue
			}
			got[lr.Node]++
		}
		for _, r := range own.Replicas {
			if got[r] == 0 {
				ds = append(ds, disc("C20/replica-never-used", "master node %d has healthy replicas %v; %d reads (traffic shape %s) were distributed as %v: replica node %d served none", own.Master, own.Replicas, c.Reads, shape, got, r))
				return ds
			}
		}
	}
	return ds
}

// c20Failover swaps the roles of the first master that has a replica and that replica, in place, and gives the
// proxy four seconds (two probe rounds and a ticker run) to adopt it.
func c20Failover(f *Fixture) {
	t := f.Topo
	for i := range t.Nodes {
		m := &t.Nodes[i]
		if !m.Master {
			continue
		}
		for j := range t.Nodes {
			r := &t.Nodes[j]
			if r.Master || r.MasterID != m.ID {
				continue
			}
			oldID := m.ID
			r.Master, r.Slots, r.MasterID = true, m.Slots, ""
			m.Master, m.Slots, m.MasterID = false, nil, r.ID
			for k := range t.Nodes {
				if t.Nodes[k].MasterID == oldID {
					t.Nodes[k].MasterID = r.ID
				}
			}
			t.Install(f.Cluster)
			t.SetInfoFromTopo(f.Cluster)
			f.Owners = t.Expected(nil)
			evidence.For("C20").Add("failovers_played", 1)
			time.Sleep(4 * time.Second)
			return
		}
	}
}

// c20Outage takes one replica down while reads are routed to it, and brings it back.
func c20Outage(f *Fixture, c *c20Case) string {
	victim, slot := -1, -1
	for mi := range c.Topo.Reps {
		if c.Topo.Reps[mi] < 2 {
			continue
		}
		for _, r := range c.Topo.Ranges {
			if r[2] == mi {
				slot = r[0]
				break
			}
		}
		if slot >= 0 {
			victim = f.Owners[slot].Replicas[0]
			break
		}
	}
	if victim < 0 {
		return ""
	}
	evidence.For("C20").Add("outages_played", 1)
	f.Cluster.SetDown(victim, true)
	cl, err := rclient.Dial(f.Proxy.Addr(), "")
	if err != nil {
		return "cannot connect: " + err.Error()
	}
	defer cl.Close()
	// reads, one at a time, until one of them was answered with an error (it was routed to the replica that is down)
	hit := false
	for i := 0; i < 60 && !hit; i++ {
		cl.Write(refmodel.EncodeCmdS("get", refmodel.KeyInSlot(slot, fmt.Sprintf("outage%d", i))))
		if !cl.WaitReplies(i+1, 5*time.Second) {
			f.Cluster.SetDown(victim, false)
			return fmt.Sprintf("a read sent while replica node %d refuses connections got no reply within 5 s", victim)
		}
		st := cl.Snapshot()
		hit = isErrorReply(st.Replies[i].Raw)
	}
	if hit {
		evidence.For("C20").Add("outages_that_hit_a_read", 1)
	}
	time.Sleep(800 * time.Millisecond) // longer than the first retry window (server_retry_timeout 500 ms)
	if err := f.Cluster.SetDown(victim, false); err != nil {
		// somebody else got the port in the meantime (busy machine): no verdict for this case
		evidence.For("C20").Add("cases_discarded_node_port_lost", 1)
		return caseDiscarded
	}
	time.Sleep(11 * time.Second) // the pool monitor probes every 5 s, twice per round when the first probe fails
	return ""
}

func TestC20(t *testing.T) {
	rec := evidence.For("C20")
	rapidCheck(t, func(t *rapid.T) {
		c := c20Gen(t)
		cls := []string{fmt.Sprintf("masters-%d", len(c.Topo.Reps))}
		for _, r := range c.Topo.Reps {
			cls = append(cls, fmt.Sprintf("replicas-%d", r))
		}
		if c.Outage {
			cls = append(cls, "after-a-replica-outage")
		}
		if c.Failover {
			cls = append(cls, "after-an-in-place-failover")
		}
		if c.Syncing {
			cls = append(cls, "replica-still-syncing-at-first-sight")
		}
		rec.Case(&c, true, dedup(cls)...)
		report(t, "C20", &c, c20Exec(&c))
	})
}

func init() {
	registerReplay("C04", func(raw json.RawMessage) ([]Discrepancy, error) {
		var c c04Case
		if err := json.Unmarshal(raw, &c); err != nil {
			return nil, err
		}
		return c04Exec(&c), nil
	})
	registerReplay("C20", func(raw json.RawMessage) ([]Discrepancy, error) {
		var c c20Case
		if err := json.Unmarshal(raw, &c); err != nil {
			return nil, err
		}
		return c20Exec(&c), nil
	})
}
