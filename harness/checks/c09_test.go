package checks

import (
	"encoding/json"
	"fmt"
	"sync"
	"testing"
	"time"

	"pgregory.net/rapid"

	"verifharness/evidence"
	"verifharness/fakecluster"
	"verifharness/rclient"
	"verifharness/refmodel"
	"verifharness/sut"
)

// C09: once the backends have answered a request and every earlier request of the connection, the client
// receives those replies within a short bounded time, no matter how many further requests it keeps sending.

type c09Case struct {
	GapUs         int   `json:"send_gap_us"`  // pause between requests (open loop: never waits for replies)
	DurMs         int   `json:"duration_ms"`  // how long the client keeps sending
	LatMs         []int `json:"latencies_ms"` // backend latency pattern, applied round robin
	Nodes         int   `json:"nodes"`        // keys spread over this many nodes
	SplitEach     int   `json:"split_every"`  // every n-th request is a split MGET over two nodes (0 = never)
	Second        bool  `json:"second_client"`
	Burst         int   `json:"burst_behind_slow_head,omitempty"` // >0: a head request answered after 300 ms, this many fast requests right behind it, then silence
	Lone          bool  `json:"lone_requests,omitempty"`          // three clients each send single requests to a node of their own and stay silent in between; replies are arrays of tiny elements, empty arrays, null bulks ...
	SlowPartnerMs int   `json:"slow_partner_ms,omitempty"`        // >0: four clients each send GET a; MGET a c in one write, node C answers this late: GET's reply must not wait for the MGET
	// Late: a client that lets answered replies pile up, consumes them in stages while asking for more, and
	// finally reads at full speed: once it reads, everything the backends answered must reach it (runPhased)
	Late *PipeSpec `json:"late_reader,omitempty"`
	// Cold (lone requests): a password is configured and the node's connections are dropped before every request,
	// so each request travels right behind the handshake of a freshly dialled connection
	Cold bool `json:"cold_connections,omitempty"`
	// Failed: the head request of a pipeline is answered by the proxy itself with an error (its slot has moved to
	// a node the proxy cannot reach) while requests behind it are answered by their backends at once: all of it
	// must reach the client promptly
	Failed *PipeSpec `json:"failed_head,omitempty"`
}

const c09Delta = time.Second

func c09Gen(t *rapid.T) c09Case {
	c := c09Case{
		GapUs: rapid.SampledFrom([]int{0, 200, 1000, 2000, 5000}).Draw(t, "gap"),
		DurMs: rapid.IntRange(1500, 2500).Draw(t, "dur"),
		Nodes: rapid.IntRange(1, 3).Draw(t, "nodes"),
	}
	if thorough() {
		c.DurMs = rapid.IntRange(1500, 4000).Draw(t, "durlong")
	}
	switch rapid.IntRange(0, 2).Draw(t, "latkind") {
	case 0:
		c.LatMs = []int{rapid.IntRange(0, 50).Draw(t, "fixed")}
	case 1:
		n := rapid.IntRange(2, 8).Draw(t, "njit")
		for i := 0; i < n; i++ {
			c.LatMs = append(c.LatMs, rapid.IntRange(0, 50).Draw(t, "jit"))
		}
	default:
		c.LatMs = []int{0, 0, 0, rapid.IntRange(20, 50).Draw(t, "slow"), 0, 1}
	}
	c.SplitEach = rapid.SampledFrom([]int{0, 0, 3, 10}).Draw(t, "split")
	c.Second = rapid.Bool().Draw(t, "second")
	if rapid.IntRange(0, 9).Draw(t, "failedmode") == 0 {
		var cs ClientSpec
		nb := rapid.IntRange(1, 6).Draw(t, "behind")
		at := rapid.IntRange(0, nb).Draw(t, "failedat")
		slots := []int{100, 6000, 12000}
		var movedSlot int
		for i := 0; i <= nb; i++ {
			slot := slots[rapid.IntRange(0, 2).Draw(t, "fslot")] + i + 1
			if i == at {
				movedSlot = slot
			}
			cs.Reqs = append(cs.Reqs, Req{Name: Bin("get"), Args: []Bin{keyFor(slot, 0, i, 0)}})
		}
		if rapid.Bool().Draw(t, "separate") {
			for i := range cs.Reqs {
				cs.Cuts = append(cs.Cuts, len(cs.Reqs[i].Encode()))
			}
			cs.PauseUs = rapid.SampledFrom([]int{200, 2000}).Draw(t, "fpause")
		}
		c.Failed = &PipeSpec{Clients: []ClientSpec{cs}, Moved: []SlotNode{{Slot: movedSlot, Node: -1}}}
		c.Nodes, c.SplitEach, c.Second, c.LatMs = 3, 0, false, []int{0}
		return c
	}
	if rapid.IntRange(0, 7).Draw(t, "latemode") == 0 {
		cs, plans := genPhased(t, false)
		c.Late = &PipeSpec{Clients: []ClientSpec{cs}, Plans: plans}
		c.Nodes, c.SplitEach, c.Second, c.LatMs = 3, 0, false, []int{0}
		return c
	}
	if rapid.IntRange(0, 6).Draw(t, "lonemode") == 0 {
		c.Lone = true
		c.Nodes, c.SplitEach, c.Second, c.DurMs = 3, 0, false, 2600
		c.LatMs = []int{rapid.IntRange(0, 20).Draw(t, "lonelat")}
		c.Cold = rapid.Bool().Draw(t, "cold")
		return c
	}
	if rapid.IntRange(0, 6).Draw(t, "partnermode") == 0 {
		c.SlowPartnerMs = rapid.IntRange(1500, 2200).Draw(t, "partnerms")
		c.Nodes, c.SplitEach, c.Second, c.DurMs = 3, 0, false, c.SlowPartnerMs+400
		return c
	}
	if rapid.IntRange(0, 5).Draw(t, "burstmode") == 0 {
		c.Burst = rapid.SampledFrom([]int{200, 1023, 1024, 1025, 1500, 3000}).Draw(t, "burst")
		c.Nodes = rapid.IntRange(2, 3).Draw(t, "burstnodes")
		c.SplitEach = 0
	}
	return c
}

// lagMeter measures how late this process' own timers fire (to tell machine overload from proxy behaviour).
type lagMeter struct {
	mu   sync.Mutex
	max  time.Duration
	stop chan struct{}
}

func startLagMeter() *lagMeter {
	m := &lagMeter{stop: make(chan struct{})}
	go func() {
		for {
			select {
			case <-m.stop:
				return
			default:
			}
			t0 := time.Now()
			time.Sleep(2 * time.Millisecond)
			if d := time.Since(t0) - 2*time.Millisecond; d > 0 {
				m.mu.Lock()
				if d > m.max {
					m.max = d
				}
				m.mu.Unlock()
			}
		}
	}()
	return m
}

func (m *lagMeter) finish() time.Duration {
	close(m.stop)
	m.mu.Lock()
	defer m.mu.Unlock()
	return m.max
}

// c09Exec judges delivery times, so a discrepancy counts only when the same traffic shows it again on a fresh
// proxy, twice: a withheld reply caused by the proxy follows from the shape of the traffic, one caused by a
// busy machine does not.
func c09Exec(c *c09Case) ([]Discrepancy, bool) {
	var ds []Discrepancy
	var nt bool
	if c.Failed != nil {
		f := getFixture("C09", sut.Config{ServerConns: 1}, 3, 0)
		spec := *c.Failed
		spec.DeadAddr = fakecluster.DeadAddr()
		rc := &refCtx{Owners: f.Owners}
		exp := expectedFor(&spec.Clients[0], indexPlans(&spec), rc)
		t0 := time.Now()
		res := runPipesQuiet(f, &spec, []int{len(exp)}, 4*time.Second, 0, nil)
		ds = f.checkAlive("C09", nil)
		cr := &res.Clients[0]
		if len(ds) == 0 {
			for i := range exp {
				if i >= len(cr.Replies) {
					ds = append(ds, disc("C09/reply-withheld", "request %d of %d was answered by the proxy itself with an error (its slot moved to an unreachable node) and every other request by its backend at once, yet after 4 s only %d replies had reached the client", len(c.Failed.Clients[0].Reqs), len(exp), len(cr.Replies)))
					break
				}
				if late := cr.Times[i].Sub(t0); late > 2500*time.Millisecond {
					ds = append(ds, disc("C09/reply-withheld", "reply %d of %d reached the client %d ms after the pipeline was sent although nothing kept it (the proxy answers the request for the moved slot itself, the backends answer at once)", i+1, len(exp), late.Milliseconds()))
					break
				}
			}
		}
		if len(ds) > 0 {
			dropFixture(f)
		}
		evidence.For("C09").Add("requests_judged", len(exp))
		return ds, true
	}
	if c.Late != nil {
		f := getFixture("C09", sut.Config{ServerConns: 1, SndBuf: 4096}, 3, 0)
		rc := &refCtx{Owners: f.Owners}
		exp := expectedFor(&c.Late.Clients[0], indexPlans(c.Late), rc)
		res := runPhased(f, c.Late, len(exp))
		ds = f.checkAlive("C09", nil)
		if cr := &res.Clients[0]; len(ds) == 0 && len(cr.Replies) < len(exp) && !cr.EOF && cr.BadResp == nil {
			ds = append(ds, disc("C09/reply-withheld", "the backends answered all %d requests and the client is reading, yet only %d replies reached it and then nothing for 10 s (%d bytes of the next one arrived)", len(exp), len(cr.Replies), len(cr.Pending)))
		}
		if len(ds) > 0 {
			dropFixture(f)
		}
		evidence.For("C09").Add("requests_judged", len(exp))
		return ds, len(c.Late.Clients[0].Phases) > 1
	}
	cfg := sut.Config{ServerConns: 1}
	if c.Cold {
		cfg.Password = "pw"
	}
	for attempt := 0; attempt < 3; attempt++ {
		f := getFixture("C09", cfg, 3, 0)
		ds, nt = c09Run(f, c)
		if len(ds) == 0 {
			if attempt > 0 {
				evidence.For("C09").Add("timing_discrepancies_not_reproduced_on_rerun", 1)
			}
			return nil, nt
		}
		dropFixture(f)
		if ds[0].Sig != "C09/reply-withheld" {
			return ds, nt
		}
		time.Sleep(time.Duration(200*(attempt+1)) * time.Millisecond)
	}
	return ds, nt
}

type c09Stream struct {
	cl       *rclient.Client
	keys     []string
	sentAt   []time.Time
	nreq     int
	sendDone time.Time
}

func c09Run(f *Fixture, c *c09Case) ([]Discrepancy, bool) {
	slots := []int{100, 6000, 12000}[:c.Nodes]
	var latIdx int
	var latMu sync.Mutex
	f.Cluster.ResetLog()
	f.Cluster.SetHandler(func(req *fakecluster.Request) fakecluster.Action {
		latMu.Lock()
		l := c.LatMs[latIdx%len(c.LatMs)]
		latIdx++
		latMu.Unlock()
		if c.SlowPartnerMs > 0 {
			l = 0
			if req.Node == 2 {
				l = c.SlowPartnerMs
			}
		}
		if c.Burst > 0 {
			l = 0
			if k := req.Key(1); len(k) > 4 && k[len(k)-4:] == "r0k0" {
				l = 300 // the head request of each client
			}
		}
		a := fakecluster.Action{Reply: fakecluster.EchoReply(req)}
		if c.Lone {
			shapes := [][]byte{[]byte("*3\r\n:1\r\n:0\r\n:1\r\n"), []byte("*0\r\n"), []byte("*2\r\n*0\r\n*0\r\n"), []byte("$-1\r\n"), []byte("*-1\r\n"), []byte(":0\r\n"), []byte("+\r\n"), []byte("$0\r\n\r\n"), []byte("*1\r\n$-1\r\n"), []byte("*4\r\n:1\r\n:2\r\n:3\r\n:4\r\n")}
			a.Reply = shapes[int(req.Seq)%len(shapes)]
		}
		if l > 0 {
			// reply at arrival + l (replies of one connection stay in order)
			g := make(chan struct{})
			time.AfterFunc(time.Duration(l)*time.Millisecond, func() { close(g) })
			a.Gate = g
		}
		return a
	})
	defer f.Cluster.SetHandler(nil)
	if c.Cold {
		f.Cluster.SetHandshakeCoalesce(true)
		defer f.Cluster.SetHandshakeCoalesce(false)
	}
	meter := startLagMeter()
	rq0 := f.Proxy.RunQueueWait()
	nclients := 1
	if c.Second {
		nclients = 2
	}
	if c.SlowPartnerMs > 0 {
		nclients = 4
	}
	if c.Lone {
		nclients = 3
	}
	streams := make([]*c09Stream, nclients)
	var wg sync.WaitGroup
	for ci := 0; ci < nclients; ci++ {
		cl, err := rclient.Dial(f.Proxy.Addr(), "")
		if err != nil {
			meter.finish()
			return append(f.checkAlive("C09", nil), disc("C09/cannot-connect", "%v", err)), false
		}
		defer cl.Close()
		s := &c09Stream{cl: cl}
		streams[ci] = s
		wg.Add(1)
		go func(ci int) {
			defer wg.Done()
			end := time.Now().Add(time.Duration(c.DurMs) * time.Millisecond)
			if c.Lone {
				// one request to a node nobody else talks to, then silence: the reply is the last thing on that
				// backend connection
				for round := 0; round < 2; round++ {
					if c.Cold {
						f.Cluster.CloseDataConns(f.Owners[slots[ci%len(slots)]].Master, false)
						time.Sleep(25 * time.Millisecond)
					}
					k := refmodel.KeyInSlot(slots[ci%len(slots)], fmt.Sprintf("c%dr%dk0", ci, round))
					s.keys = append(s.keys, k)
					s.sentAt = append(s.sentAt, time.Now())
					if err := cl.Write(refmodel.EncodeCmdS("eval", "return {}", "1", k)); err != nil {
						break
					}
					s.nreq++
					time.Sleep(1250 * time.Millisecond)
				}
				s.sendDone = time.Now()
				return
			}
			if c.SlowPartnerMs > 0 {
				ka := refmodel.KeyInSlot(slots[0], fmt.Sprintf("c%dr0k0", ci))
				kb := refmodel.KeyInSlot(slots[0]+1, fmt.Sprintf("c%dr1k0", ci))
				kc := refmodel.KeyInSlot(slots[2], fmt.Sprintf("c%dr1k1", ci))
				s.keys = append(s.keys, ka, kb)
				now := time.Now()
				s.sentAt = append(s.sentAt, now, now)
				if err := cl.Write(append(refmodel.EncodeCmdS("get", ka), refmodel.EncodeCmdS("mget", kb, kc)...)); err == nil {
					s.nreq = 2
				}
				time.Sleep(time.Until(end))
				s.sendDone = time.Now()
				return
			}
			for i := 0; time.Now().Before(end) && i < 20000; i++ {
				if c.Burst > 0 && i > c.Burst {
					break // silence after the burst
				}
				slot := slots[i%len(slots)]
				if c.Burst > 0 && i > 0 {
					slot = slots[1+i%(len(slots)-1)] // the burst goes to the other nodes, which answer at once
				}
				key := refmodel.KeyInSlot(slot, fmt.Sprintf("c%dr%dk0", ci, i))
				var b []byte
				if c.SplitEach > 0 && i%c.SplitEach == c.SplitEach-1 {
					k2 := refmodel.KeyInSlot(slots[(i+1)%len(slots)], fmt.Sprintf("c%dr%dk1", ci, i))
					b = refmodel.EncodeCmdS("mget", key, k2)
				} else {
					b = refmodel.EncodeCmdS("get", key)
				}
				s.keys = append(s.keys, key)
				s.sentAt = append(s.sentAt, time.Now())
				if err := cl.Write(b); err != nil {
					break
				}
				s.nreq++
				if c.GapUs > 0 && c.Burst == 0 {
					time.Sleep(time.Duration(c.GapUs) * time.Microsecond)
				}
			}
			s.sendDone = time.Now()
		}(ci)
	}
	wg.Wait()
	// let everything drain (bounded), then judge from the timestamps
	for _, s := range streams {
		s.cl.WaitReplies(s.nreq, 6*time.Second)
	}
	lag := meter.finish()
	var ds []Discrepancy
	ds = f.checkAlive("C09", ds)
	if len(ds) > 0 {
		return ds, false
	}
	// overloaded machine: this process' timers fired late, or the proxy's threads sat runnable without a CPU
	rq := f.Proxy.RunQueueWait() - rq0
	if lag > 100*time.Millisecond || rq > 150*time.Millisecond {
		evidence.For("C09").Add("runs_discarded_machine_overloaded", 1)
		return nil, false
	}
	// when was each key's last fragment written by its backend
	doneAt := map[string]time.Time{}
	for _, lr := range f.Cluster.Log() {
		for _, k := range keysOf(lr.Name, lr.Args) {
			// fragments of a split request carry k0 or k1 of the same request: both map to the request token ...k0
			id := string(k)
			t := lr.RepliedAt()
			if t.IsZero() {
				continue
			}
			tok := c03Tok.FindString(id)
			if tok == "" {
				continue
			}
			tok = tok[:len(tok)-1] + "0"
			if t.After(doneAt[tok]) {
				doneAt[tok] = t
			}
		}
	}
	allNT := true
	for ci, s := range streams {
		st := s.cl.Snapshot()
		var prefixDone time.Time
		judged, afterWindow := 0, 0
		for i := 0; i < s.nreq; i++ {
			tok := c03Tok.FindString(s.keys[i])
			d, ok := doneAt[tok]
			if !ok {
				break // not answered by the backend (yet): nothing to demand for this and later requests
			}
			if d.After(prefixDone) {
				prefixDone = d
			}
			due := prefixDone.Add(c09Delta)
			if !due.Before(s.sendDone) {
				afterWindow++ // deadline after the client stopped sending: judged all the same (nothing may be withheld then either)
			}
			judged++
			if i >= len(st.Replies) || st.Replies[i].Time.After(due) {
				var got string
				if i < len(st.Replies) {
					got = fmt.Sprintf("it arrived %.0f ms after that", float64(st.Replies[i].Time.Sub(prefixDone))/1e6)
				} else {
					got = "it never arrived"
				}
				ds = append(ds, disc("C09/reply-withheld", "client %d kept sending every %d us; the backends had answered request %d and all earlier ones %.0f ms after the client started, yet the reply was not delivered within %v while the client was still sending (%s; %d requests sent over %d ms, own timer lag %v, proxy waited %v for a CPU)",
					ci, c.GapUs, i+1, float64(prefixDone.Sub(s.sentAt[0]))/1e6, c09Delta, got, s.nreq, c.DurMs, lag, rq))
				return ds, false
			}
		}
		evidence.For("C09").Add("requests_judged", judged)
		evidence.For("C09").Add("requests_judged_after_sending_stopped", afterWindow)
		// non-trivial: the client always had a request outstanding while it was sending
		for k := 0; k+1 < s.nreq && k < len(st.Replies); k++ {
			if st.Replies[k].Time.Before(s.sentAt[k+1]) && k >= 3 {
				allNT = false
				break
			}
		}
		if judged < 10 {
			allNT = false
		}
		if c.Burst > 0 && judged >= c.Burst {
			allNT = true
		}
		if c.SlowPartnerMs > 0 && judged >= 2 {
			allNT = true
		}
		if c.Lone && judged >= 2 {
			allNT = true
		}
	}
	return ds, allNT
}

func init() {
	registerReplay("C09", func(raw json.RawMessage) ([]Discrepancy, error) {
		var c c09Case
		if err := json.Unmarshal(raw, &c); err != nil {
			return nil, err
		}
		ds, _ := c09Exec(&c)
		return ds, nil
	})
}

func TestC09(t *testing.T) {
	rec := evidence.For("C09")
	rapidCheck(t, func(t *rapid.T) {
		c := c09Gen(t)
		ds, nt := c09Exec(&c)
		cls := []string{fmt.Sprintf("gap-%dus", c.GapUs), fmt.Sprintf("nodes-%d", c.Nodes)}
		if c.Burst > 0 {
			cls = append(cls, "burst-behind-slow-head")
		}
		if c.SlowPartnerMs > 0 {
			cls = append(cls, "completed-reply-ahead-of-a-slow-split-request")
		}
		if c.Lone {
			cls = append(cls, "lone-requests-with-tiny-replies")
		}
		if c.Cold {
			cls = append(cls, "right-behind-the-handshake-of-a-new-connection")
		}
		if c.Late != nil {
			cls = []string{"backlog-consumed-in-stages-by-a-late-reader"}
		}
		if c.Failed != nil {
			cls = []string{"proxy-made-error-reply-ahead-of-answered-requests"}
		}
		if nt {
			cls = append(cls, "always-outstanding")
		}
		if c.Second {
			cls = append(cls, "two-clients")
		}
		rec.Case(&c, nt, cls...)
		report(t, "C09", &c, ds)
	})
}
