package checks

import (
	"encoding/json"
	"fmt"
	"os"
	"path/filepath"
	"sort"
	"strings"
	"testing"
	"time"

	"pgregory.net/rapid"

	"verifharness/evidence"
	"verifharness/fakecluster"
	"verifharness/rclient"
	"verifharness/refmodel"
	"verifharness/sut"
)

// C18: with the whitelist enabled only listed source addresses are served, everybody else is closed without a
// reply and without any of its bytes being acted on; with it disabled everyone is served; after the file
// changes the admitted set equals the file's set within a few seconds.

type c18Edit struct {
	// add | remove | enable | disable | rewrite | dup (list an address once more) | shuffle | backup | rollback |
	// omit-list (the file keeps only its enable line: no address is listed) | omit-enable (only the list: the
	// switch is at its default, off) | empty (an empty file) | edit-and-rollback (copy aside, toggle one address,
	// move the copy back) | broken-then-fixed (the file is saved with a syntax error, then corrected, with one
	// address toggled) | moved-aside-then-new (the file is renamed away, then a new one is moved into place) |
	// junk-entry (an entry that is no address literal - a host name, a CIDR, a typo - is added somewhere in the
	// list while one address is toggled: it admits nobody and must not keep the other entries from applying)
	Kind   string `json:"kind"`
	IP     int    `json:"ip"`   // 1..8 -> 127.0.0.<ip>
	Rename bool   `json:"rename"`
}

type c18Case struct {
	Enable bool      `json:"enable"`
	IPs    []int     `json:"ips"`
	Dups   []int     `json:"dups,omitempty"` // addresses listed twice in the initial file
	Edits  []c18Edit `json:"edits"`
}

// c18LongHook replays long-history cases (c18_long_test.go).
var c18LongHook func(raw json.RawMessage) ([]Discrepancy, bool)

func c18Gen(t *rapid.T) c18Case {
	c := c18Case{Enable: rapid.IntRange(0, 3).Draw(t, "enable") > 0}
	c.IPs = rapid.SliceOfNDistinct(rapid.IntRange(1, 8), 0, 5, rapid.ID[int]).Draw(t, "ips")
	for _, ip := range c.IPs {
		if rapid.IntRange(0, 4).Draw(t, "initdup") == 0 {
			c.Dups = append(c.Dups, ip)
		}
	}
	n := rapid.IntRange(1, 6).Draw(t, "nedits")
	for i := 0; i < n; i++ {
		c.Edits = append(c.Edits, c18Edit{
			Kind:   rapid.SampledFrom([]string{"add", "add", "remove", "remove", "remove", "enable", "disable", "rewrite", "dup", "dup", "shuffle", "backup", "rollback", "rollback", "omit-list", "omit-enable", "empty", "edit-and-rollback", "broken-then-fixed", "moved-aside-then-new", "junk-entry", "junk-entry"}).Draw(t, "kind"),
			IP:     rapid.IntRange(1, 8).Draw(t, "ip"),
			Rename: rapid.IntRange(0, 2).Draw(t, "rename") == 0,
		})
	}
	return c
}

func c18IPs(set map[int]bool) []string { return c18List(set, nil, false) }

// c18List renders the address list of the file: every admitted address, extra copies of those in dups,
// in ascending or descending order.
func c18List(set map[int]bool, dups map[int]int, reverse bool) []string {
	var ks []int
	for k := range set {
		ks = append(ks, k)
		for i := 0; i < dups[k]; i++ {
			ks = append(ks, k)
		}
	}
	sort.Ints(ks)
	if reverse {
		for i, j := 0, len(ks)-1; i < j; i, j = i+1, j-1 {
			ks[i], ks[j] = ks[j], ks[i]
		}
	}
	var out []string
	for _, k := range ks {
		out = append(out, fmt.Sprintf("127.0.0.%d", k))
	}
	return out
}

// c18Observe connects from every source address and reports which were admitted; forwarded lists sources whose
// token reached a backend although they were not admitted, replied those that got bytes back although closed.
func c18Observe(f *Fixture, round int) (admitted map[int]bool, problems []string) {
	admitted = map[int]bool{}
	f.Cluster.ResetLog()
	type res struct {
		ip    int
		ok    bool
		bytes int
		eof   bool
		err   string
	}
	out := make(chan res, 8)
	for ip := 1; ip <= 8; ip++ {
		go func(ip int) {
			cl, err := rclient.Dial(f.Proxy.Addr(), fmt.Sprintf("127.0.0.%d", ip))
			if err != nil {
				out <- res{ip: ip, err: err.Error()}
				return
			}
			defer cl.Close()
			key := refmodel.KeyInSlot(100*ip, fmt.Sprintf("wl%dsrc%d", round, ip))
			cl.Write(append(refmodel.EncodeCmdS("PING"), refmodel.EncodeCmdS("get", key)...))
			got := cl.WaitReplies(2, 1500*time.Millisecond)
			st := cl.Snapshot()
			if !got && !st.EOF {
				// neither served nor closed yet: give it a little longer
				cl.WaitReplies(2, 1500*time.Millisecond)
				st = cl.Snapshot()
			}
			out <- res{ip: ip, ok: len(st.Replies) == 2 && string(st.Replies[0].Raw) == "+PONG\r\n" && string(st.Replies[1].Raw) == string(refmodel.Bulk(fakecluster.EchoValue("get", key))), bytes: st.Total, eof: st.EOF}
		}(ip)
	}
	results := map[int]res{}
	for i := 0; i < 8; i++ {
		r := <-out
		results[r.ip] = r
	}
	time.Sleep(5 * time.Millisecond)
	seen := map[int]bool{}
	for _, lr := range f.Cluster.Log() {
		k := lr.Key(1)
		for ip := 1; ip <= 8; ip++ {
			if strings.HasSuffix(k, fmt.Sprintf("wl%dsrc%d", round, ip)) {
				seen[ip] = true
			}
		}
	}
	for ip := 1; ip <= 8; ip++ {
		r := results[ip]
		switch {
		case r.err != "":
			problems = append(problems, fmt.Sprintf("127.0.0.%d: cannot connect: %s", ip, r.err))
		case r.ok:
			admitted[ip] = true
		default:
			if r.bytes > 0 {
				problems = append(problems, fmt.Sprintf("127.0.0.%d was not served properly yet received %d reply bytes", ip, r.bytes))
			}
			if seen[ip] {
				problems = append(problems, fmt.Sprintf("127.0.0.%d was not served yet its request reached a backend", ip))
			}
			if !r.eof {
				problems = append(problems, fmt.Sprintf("127.0.0.%d was neither served nor closed within 3 s", ip))
			}
		}
	}
	return admitted, problems
}

func c18Exec(c *c18Case) ([]Discrepancy, []string) {
	var trace []string
	cl, err := fakecluster.New(3)
	if err != nil {
		harnessProblem("cannot build the fake cluster: %v", err)
	}
	defer cl.Close()
	topo := fakecluster.EvenTopo(cl, 3, 0)
	set := map[int]bool{}
	for _, ip := range c.IPs {
		set[ip] = true
	}
	dups := map[int]int{}
	for _, ip := range c.Dups {
		if set[ip] {
			dups[ip]++
		}
	}
	reverse := false
	enable := c.Enable
	cfg := sut.Config{WhitelistEnable: enable, WhitelistIPs: c18List(set, dups, reverse)}
	// the harness' own readiness probes come from 127.0.0.1: start with the whitelist as generated but wait for
	// routing through an address that is admitted; if none is, start disabled and make "enable" the first edit
	startEnable := enable
	if enable && !set[1] {
		cfg.WhitelistEnable = false
	}
	var f *Fixture
	for attempt := 0; attempt < 3; attempt++ {
		f, err = startFixtureWith(cl, topo, cfg, []int{0, 1}, nil)
		if err == nil {
			break
		}
		time.Sleep(time.Second)
	}
	if err != nil {
		return []Discrepancy{disc("C18/proxy-does-not-serve", "the proxy did not start: %v", err)}, trace
	}
	defer f.Proxy.Stop()
	evidence.For("C18").Add("proxy_starts", 1)
	file := filepath.Join(f.Proxy.ConfDir(), "authip.yaml")
	layout := "" // how the next write lays the file out
	var junk []string // entries that are no address literals, and where they sit in the list
	var junkAt []int
	write := func(rename bool) error {
		list := c18List(set, dups, reverse)
		for i, j := range junk {
			at := junkAt[i] % (len(list) + 1)
			list = append(list[:at], append([]string{j}, list[at:]...)...)
		}
		content := []byte(sut.AuthipYAML(enable, list))
		switch layout {
		case "omit-list":
			content = []byte(fmt.Sprintf("enable: %v\n", enable))
		case "omit-enable":
			full := string(content)
			content = []byte(full[strings.Index(full, "ip_white_list"):])
		case "empty":
			content = nil
		}
		layout = ""
		if rename {
			tmp := file + ".tmp"
			if err := os.WriteFile(tmp, content, 0o644); err != nil {
				return err
			}
			return os.Rename(tmp, file)
		}
		return os.WriteFile(file, content, 0o644)
	}
	expect := func() map[int]bool {
		m := map[int]bool{}
		for ip := 1; ip <= 8; ip++ {
			if !enable || set[ip] {
				m[ip] = true
			}
		}
		return m
	}
	// backup / rollback: an operator keeps a copy of the file and later moves it back over the live one
	// (the restored file carries its old modification time)
	bak := file + ".bak"
	haveBak := false
	var bakEnable, bakReverse bool
	var bakSet map[int]bool
	var bakDups map[int]int
	round := 0
	converge := func(what string) []Discrepancy {
		deadline := time.Now().Add(5 * time.Second)
		var last string
		for {
			round++
			adm, problems := c18Observe(f, round)
			want := expect()
			last = ""
			for ip := 1; ip <= 8; ip++ {
				if adm[ip] != want[ip] {
					verb := "is refused although the file admits it"
					if adm[ip] {
						verb = "is served although the file does not admit it"
					}
					last = fmt.Sprintf("127.0.0.%d %s (file: enable=%v list=%v)", ip, verb, enable, c18IPs(set))
					break
				}
			}
			if last == "" && len(problems) > 0 {
				last = problems[0]
			}
			if last == "" {
				return nil
			}
			if !f.Proxy.Alive() {
				return f.checkAlive("C18", nil)
			}
			if time.Now().After(deadline) {
				sig := "C18/admission-differs-from-file"
				if strings.Contains(last, "reply bytes") || strings.Contains(last, "reached a backend") {
					sig = "C18/rejected-client-acted-on"
				}
				return []Discrepancy{disc(sig, "5 s after %s: %s", what, last)}
			}
			time.Sleep(150 * time.Millisecond)
		}
	}
	if startEnable != cfg.WhitelistEnable {
		// bring the file to the generated initial state (an edit of its own)
		if err := write(false); err != nil {
			harnessProblem("cannot write the whitelist file: %v", err)
		}
		trace = append(trace, "initial: enable written after start")
	}
	if ds := converge("start"); ds != nil {
		return ds, trace
	}
	for i, e := range c.Edits {
		switch e.Kind {
		case "add":
			set[e.IP] = true
		case "remove":
			delete(set, e.IP)
			delete(dups, e.IP)
		case "dup":
			set[e.IP] = true
			dups[e.IP]++
		case "shuffle":
			reverse = !reverse
		case "backup":
			// copy the live file aside (no change to the live file)
			if b, err := os.ReadFile(file); err == nil {
				os.WriteFile(bak, b, 0o644)
				haveBak = true
				bakEnable, bakReverse = enable, reverse
				bakSet, bakDups = map[int]bool{}, map[int]int{}
				for k, v := range set {
					bakSet[k] = v
				}
				for k, v := range dups {
					bakDups[k] = v
				}
				time.Sleep(15 * time.Millisecond) // later edits get a later modification time
			}
			trace = append(trace, fmt.Sprintf("edit %d (backup copy taken)", i+1))
			continue
		case "rollback":
			if !haveBak {
				trace = append(trace, fmt.Sprintf("edit %d (rollback without a backup: skipped)", i+1))
				continue
			}
			if err := os.Rename(bak, file); err != nil {
				harnessProblem("cannot move the backup into place: %v", err)
			}
			haveBak = false
			enable, reverse, set, dups = bakEnable, bakReverse, bakSet, bakDups
			what := fmt.Sprintf("edit %d (rollback: the backup copy moved back over the file)", i+1)
			trace = append(trace, what)
			if ds := converge(what); ds != nil {
				return ds, trace
			}
			continue
		case "enable":
			enable = true
		case "disable":
			enable = false
		case "junk-entry":
			junk = append(junk, []string{"localhost", "127.0.0.300", "10.0.0.0/8", "example.org", "127.0.0", "fe80::1%lo"}[(e.IP+len(junk))%6])
			junkAt = append(junkAt, e.IP)
			if set[e.IP] {
				delete(set, e.IP)
				delete(dups, e.IP)
			} else {
				set[e.IP] = true
			}
		case "omit-list":
			layout = e.Kind
			junk, junkAt = nil, nil
			set, dups = map[int]bool{}, map[int]int{}
		case "omit-enable":
			layout = e.Kind
			enable = false
		case "empty":
			layout = e.Kind
			enable = false
			set, dups = map[int]bool{}, map[int]int{}
		case "broken-then-fixed", "moved-aside-then-new":
			// for a moment there is no loadable whitelist file (nothing is demanded of the proxy then); the edit that
			// follows is an ordinary valid one and has to come into force like any other
			if e.Kind == "broken-then-fixed" {
				if err := os.WriteFile(file, []byte("enable: [true\nip_white_list:\n  - 127.0.0.1\n   - bad indent: {\n"), 0o644); err != nil {
					harnessProblem("cannot write the whitelist file: %v", err)
				}
			} else if err := os.Rename(file, file+".aside"); err != nil {
				harnessProblem("cannot move the whitelist file aside: %v", err)
			}
			time.Sleep(time.Duration(20+e.IP*40) * time.Millisecond)
			if set[e.IP] {
				delete(set, e.IP)
				delete(dups, e.IP)
			} else {
				set[e.IP] = true
			}
			if err := write(e.Kind == "moved-aside-then-new" || e.Rename); err != nil {
				harnessProblem("cannot write the whitelist file: %v", err)
			}
			what := fmt.Sprintf("edit %d (%s: afterwards a valid file with 127.0.0.%d toggled)", i+1, e.Kind, e.IP)
			trace = append(trace, what)
			if ds := converge(what); ds != nil {
				return ds, trace
			}
			continue
		case "edit-and-rollback":
			// copy aside, change the live file, wait until the change is in force, move the copy back
			b, err := os.ReadFile(file)
			if err != nil {
				harnessProblem("cannot read the whitelist file: %v", err)
			}
			os.WriteFile(bak+"2", b, 0o644)
			time.Sleep(15 * time.Millisecond)
			had := set[e.IP]
			if had {
				delete(set, e.IP)
			} else {
				set[e.IP] = true
			}
			if err := write(e.Rename); err != nil {
				harnessProblem("cannot write the whitelist file: %v", err)
			}
			what := fmt.Sprintf("edit %d (a copy is kept, then 127.0.0.%d is toggled)", i+1, e.IP)
			trace = append(trace, what)
			if ds := converge(what); ds != nil {
				return ds, trace
			}
			if had {
				set[e.IP] = true
			} else {
				delete(set, e.IP)
			}
			if err := os.Rename(bak+"2", file); err != nil {
				harnessProblem("cannot move the copy into place: %v", err)
			}
			what = fmt.Sprintf("edit %d (the copy kept before the toggle is moved back over the file)", i+1)
			trace = append(trace, what)
			if ds := converge(what); ds != nil {
				return ds, trace
			}
			continue
		}
		if err := write(e.Rename); err != nil {
			harnessProblem("cannot write the whitelist file: %v", err)
		}
		how := "rewritten in place"
		if e.Rename {
			how = "replaced by rename"
		}
		what := fmt.Sprintf("edit %d (%s 127.0.0.%d, file %s)", i+1, e.Kind, e.IP, how)
		trace = append(trace, what)
		if ds := converge(what); ds != nil {
			return ds, trace
		}
	}
	return nil, trace
}

func c18Classify(c *c18Case) (bool, []string) {
	nt := false
	var cls []string
	for _, e := range c.Edits {
		cls = append(cls, "edit-"+e.Kind)
		if e.Kind == "remove" || e.Rename || e.Kind == "rollback" || e.Kind == "omit-list" || e.Kind == "omit-enable" || e.Kind == "empty" || e.Kind == "edit-and-rollback" || e.Kind == "broken-then-fixed" || e.Kind == "moved-aside-then-new" || e.Kind == "junk-entry" {
			nt = true
		}
		if e.Rename {
			cls = append(cls, "rename-rewrite")
		}
	}
	if c.Enable {
		cls = append(cls, "starts-enabled")
	}
	return nt, dedup(cls)
}

func init() {
	registerReplay("C18", func(raw json.RawMessage) ([]Discrepancy, error) {
		if c18LongHook != nil {
			if ds, ok := c18LongHook(raw); ok {
				return ds, nil
			}
		}
		var c c18Case
		if err := json.Unmarshal(raw, &c); err != nil {
			return nil, err
		}
		ds, tr := c18Exec(&c)
		for _, l := range tr {
			fmt.Println("   ", l)
		}
		return ds, nil
	})
}

func TestC18(t *testing.T) {
	rec := evidence.For("C18")
	rapidCheck(t, func(t *rapid.T) {
		c := c18Gen(t)
		nt, cls := c18Classify(&c)
		rec.Case(&c, nt, cls...)
		ds, tr := c18Exec(&c)
		for i := range ds {
			ds[i].Msg += " | history: " + strings.Join(tr, "; ")
		}
		report(t, "C18", &c, ds)
	})
}
