package checks

import (
	"bytes"
	"encoding/json"
	"fmt"
	"io"
	"runtime"
	"testing"
	"time"

	"pgregory.net/rapid"

	"rcproxy/core"
	"rcproxy/core/codec"

	"verifharness/evidence"
	"verifharness/refmodel"
)

// In-process half of C12 (and of C08's "a proper prefix is never an error"): the exported client decoder
// against the reference request grammar. Contract: never (nil, nil), never panics; a complete valid request
// is consumed exactly; a proper prefix is reported as incomplete; a stream that cannot become valid is
// reported as invalid.

// memConn implements core.CConn over a byte slice.
type memConn struct {
	data      []byte
	discarded int
}

func (c *memConn) Read(p []byte) (int, error)                  { return 0, nil }
func (c *memConn) WriteTo(w io.Writer) (int64, error)          { return 0, nil }
func (c *memConn) ReadFrom(r io.Reader) (int64, error)         { return 0, nil }
func (c *memConn) Next(n int) ([]byte, error)                  { return nil, nil }
func (c *memConn) Peek(n int) ([]byte, error)                  { return c.data[c.discarded:], nil }
func (c *memConn) Discard(n int) (int, error)                  { c.discarded += n; return n, nil }
func (c *memConn) InboundBuffered() int                        { return len(c.data) - c.discarded }
func (c *memConn) Write(p []byte) (int, error)                 { return len(p), nil }
func (c *memConn) Writev(bs [][]byte) (int, error)             { return 0, nil }
func (c *memConn) Flush() error                                { return nil }
func (c *memConn) OutboundBuffered() int                       { return 0 }
func (c *memConn) AsyncWrite([]byte, core.AsyncCallback) error { return nil }
func (c *memConn) AsyncWritev([][]byte, core.AsyncCallback) error {
	return nil
}
func (c *memConn) Fd() int                                    { return 7 }
func (c *memConn) Dup() (int, error)                          { return 0, nil }
func (c *memConn) SetReadBuffer(int) error                    { return nil }
func (c *memConn) SetWriteBuffer(int) error                   { return nil }
func (c *memConn) IsOpened() bool                             { return true }
func (c *memConn) SetLinger(int) error                        { return nil }
func (c *memConn) SetKeepAlivePeriod(time.Duration) error     { return nil }
func (c *memConn) LocalAddr() string                          { return "l" }
func (c *memConn) RemoteAddr() string                         { return "r" }
func (c *memConn) SetDeadline(time.Time) error                { return nil }
func (c *memConn) SetReadDeadline(time.Time) error            { return nil }
func (c *memConn) SetWriteDeadline(time.Time) error           { return nil }
func (c *memConn) CloseWithCallback(core.AsyncCallback) error { return nil }
func (c *memConn) Close() error                               { return nil }
func (c *memConn) EnqueueInMsg(*core.Msg)                     {}

var _ core.CConn = (*memConn)(nil)

type c12DecCase struct {
	Data Bin `json:"data"`
}

func c12DecodeInit() {
	if core.EngineGlobal == nil {
		core.EngineGlobal = &core.Engine{}
	}
}

// c12AllocCheck: decoding a short input must not allocate memory in proportion to a number the client merely
// announces (the decoder runs again for every received segment of an incomplete request, inside the event loop
// that serves everybody else).
func c12AllocCheck(data []byte, maxLen int) []Discrepancy {
	if len(data) > 4096 {
		return nil
	}
	digits, run := 0, 0
	for _, c := range data {
		if c >= '0' && c <= '9' {
			run++
			if run > digits {
				digits = run
			}
		} else {
			run = 0
		}
	}
	if digits < 5 {
		return nil
	}
	c12DecodeInit()
	var before, after runtime.MemStats
	rc := &core.CRespCodec{MsgMaxLength: maxLen}
	runtime.ReadMemStats(&before)
	func() {
		defer func() { recover() }()
		rc.Decode(&memConn{data: data})
	}()
	runtime.ReadMemStats(&after)
	if d := after.TotalAlloc - before.TotalAlloc; d > 4<<20 {
		return []Discrepancy{disc("C12/decoder-allocation-amplified", "one decode attempt on the %d-byte input %s allocated %d bytes", len(data), q(data), d)}
	}
	return nil
}

func c12DecodeExec(data []byte, maxLen int) (ds []Discrepancy) {
	c12DecodeInit()
	if ds := c12AllocCheck(data, maxLen); ds != nil {
		return ds
	}
	defer func() {
		if r := recover(); r != nil {
			ds = append(ds, disc("C12/decoder-panic", "the request decoder panicked on %s: %v", q(data), r))
		}
	}()
	rc := &core.CRespCodec{MsgMaxLength: maxLen}
	conn := &memConn{data: data}
	pos := 0
	for iter := 0; iter < 64; iter++ {
		st, n, args, why := refmodel.ScanRequest(data[pos:])
		before := conn.discarded
		msg, err := rc.Decode(conn)
		if msg == nil && err == nil {
			return []Discrepancy{disc("C12/decoder-nil-nil", "the decoder returned neither a request nor an error at offset %d of %s", pos, q(data))}
		}
		switch st {
		case refmodel.ReqComplete:
			if err != nil {
				return []Discrepancy{disc("C12/decoder-rejects-valid", "a complete valid request at offset %d of %s was not decoded: %v", pos, q(data), err)}
			}
			if conn.discarded-before != n {
				return []Discrepancy{disc("C12/decoder-consumed-wrong-length", "request of %d bytes at offset %d of %s: the decoder consumed %d", n, pos, q(data), conn.discarded-before)}
			}
			name := refmodel.ASCIILower(string(args[0]))
			if docs.Supported[name] && refmodel.ArityOK(name, len(args)-1) && !refmodel.MultiKey(name) && !refmodel.Local(name) && len(data[pos:pos+n]) <= maxLen {
				if len(msg.Body) != 1 {
					return []Discrepancy{disc("C12/decoder-fragment-count", "single-key request %s decoded into %d fragments", q(data[pos:pos+n]), len(msg.Body))}
				}
				for slot, fr := range msg.Body {
					if !sameModuloName(data[pos:pos+n], fr.Req, len(args[0])) {
						return []Discrepancy{disc("C12/decoder-altered-request", "request %s would be forwarded as %s", q(data[pos:pos+n]), q(fr.Req))}
					}
					all := keysOf(name, args)
					if len(all) > 0 && int(slot) != refmodel.KeySlot(all[0]) {
						return []Discrepancy{disc("C12/decoder-wrong-slot", "request %s filed under slot %d, reference slot %d", q(data[pos:pos+n]), slot, refmodel.KeySlot(all[0]))}
					}
				}
			}
			core.MsgPool.Put(msg)
			pos += n
			if pos >= len(data) {
				return nil
			}
		case refmodel.ReqNeedMore:
			if err == nil {
				return []Discrepancy{disc("C12/decoder-accepts-prefix", "a proper prefix at offset %d of %s was decoded as a request", pos, q(data))}
			}
			if err == codec.ErrInvalidResp {
				return []Discrepancy{disc("C12/decoder-rejects-prefix", "a proper prefix of a valid request (offset %d of %s) was reported invalid instead of incomplete", pos, q(data))}
			}
			return nil
		default: // protocol error, inline command, empty multibulk
			if err == nil {
				return []Discrepancy{disc("C12/decoder-accepts-malformed", "bytes that are not a valid request (%s) at offset %d of %s were decoded as a request that would be forwarded", why, pos, q(data))}
			}
			if err != codec.ErrInvalidResp {
				return []Discrepancy{disc("C12/decoder-waits-on-malformed", "bytes that can never become a valid request (%s) at offset %d of %s were reported incomplete (%v): the connection would wait forever", why, pos, q(data), err)}
			}
			return nil
		}
	}
	return nil
}

func c12DecGen(t *rapid.T) []byte {
	var stream []byte
	n := rapid.IntRange(0, 3).Draw(t, "nvalid")
	for i := 0; i < n; i++ {
		r := Req{Name: genCaseName(rapid.SampledFrom(docs.SupportedNames()).Draw(t, "name")).Draw(t, "cased")}
		na := rapid.IntRange(0, 4).Draw(t, "nargs")
		for a := 0; a < na; a++ {
			r.Args = append(r.Args, Bin(genArg(300).Draw(t, "arg")))
		}
		stream = append(stream, r.Encode()...)
	}
	switch rapid.IntRange(0, 8).Draw(t, "tailkind") {
	case 8:
		stream = append(stream, c12BigOffence(t, 70002)...)
	case 6, 7:
		r := Req{Name: Bin(rapid.SampledFrom([]string{"get", "set", "mget", "eval", "mset", "del"}).Draw(t, "nname"))}
		for a := rapid.IntRange(1, 4).Draw(t, "nn"); a > 0; a-- {
			r.Args = append(r.Args, Bin(rapid.SampledFrom([]string{"k", "", "1", "key{x}"}).Draw(t, "narg")))
		}
		stream = append(stream, c12NumberSwap(t, r.Encode())...)
	case 0:
		stream = append(stream, rapid.SampledFrom(c12Hostile).Draw(t, "hostile")...)
	case 1:
		v := refmodel.EncodeCmdS("set", "k", rapid.StringMatching(`[a-z\r\n$*]{0,12}`).Draw(t, "val"))
		cut := rapid.IntRange(0, len(v)).Draw(t, "cut")
		stream = append(stream, v[:cut]...)
	case 2:
		v := append([]byte{}, refmodel.EncodeCmdS("get", "key")...)
		pos := rapid.IntRange(0, len(v)-1).Draw(t, "pos")
		v[pos] = rapid.SampledFrom([]byte("\r\n*$-+0 9x:")).Draw(t, "ovw")
		stream = append(stream, v...)
	case 3:
		stream = append(stream, rapid.SliceOfN(rapid.SampledFrom([]byte("*$\r\n0123-+ :ab")), 0, 30).Draw(t, "respish")...)
	case 4:
		stream = append(stream, rapid.SliceOfN(rapid.Byte(), 0, 40).Draw(t, "random")...)
	}
	return stream
}

func c12DecNT(data []byte) (bool, []string) {
	_, rest, off, _ := refmodel.ScanStream(data)
	switch rest {
	case refmodel.ReqProtoError:
		return true, []string{"dec-protocol-error", fmt.Sprintf("dec-offence-after-valid-%v", off > 0)}
	case refmodel.ReqInline:
		return true, []string{"dec-inline"}
	case refmodel.ReqEmpty:
		return true, []string{"dec-empty-multibulk"}
	case refmodel.ReqNeedMore:
		return off > 0 || len(data) > 4, []string{"dec-proper-prefix"}
	}
	return false, []string{"dec-valid"}
}

func init() {
	registerReplay("C12dec", func(raw json.RawMessage) ([]Discrepancy, error) {
		var c c12DecCase
		if err := json.Unmarshal(raw, &c); err != nil {
			return nil, err
		}
		return c12DecodeExec(c.Data, 6<<20), nil
	})
}

func TestC12Decode(t *testing.T) {
	rec := evidence.For("C12")
	// every hostile constant first, whole and at every truncation point
	for _, h := range c12Hostile {
		for cut := 1; cut <= len(h); cut++ {
			d := []byte(h[:cut])
			nt, cls := c12DecNT(d)
			rec.CaseKey(fnv64(d)^0x12, nt, func() interface{} { return c12DecCase{Data: d} }, cls...)
			if ds := c12DecodeExec(d, 6<<20); ds != nil {
				report(t, "C12", c12DecCase{Data: d}, ds)
			}
		}
	}
	rapidCheck(t, func(t *rapid.T) {
		d := c12DecGen(t)
		nt, cls := c12DecNT(d)
		rec.CaseKey(fnv64(d)^0x12, nt, func() interface{} { return c12DecCase{Data: d} }, cls...)
		report(t, "C12", c12DecCase{Data: d}, c12DecodeExec(d, 6<<20))
	})
}

func FuzzC12Decode(f *testing.F) {
	for _, h := range c12Hostile {
		f.Add([]byte(h))
	}
	f.Add(refmodel.EncodeCmdS("mset", "a", "1", "b", "2"))
	f.Add(refmodel.EncodeCmdS("GET", "{x}y"))
	f.Fuzz(func(t *testing.T, data []byte) {
		if len(data) > 4096 {
			return
		}
		if ds := c12DecodeExec(data, 6<<20); ds != nil {
			report(t, "C12", c12DecCase{Data: data}, ds)
		}
	})
}

var _ = bytes.Equal
