//go:build verif

package checks

import (
	"os"
	"encoding/json"
	"fmt"
	"sort"
	"strings"
	"sync"
	"testing"

	"pgregory.net/rapid"

	"rcproxy/core"
	"rcproxy/core/pkg/logging"

	"verifharness/evidence"
	"verifharness/fakecluster"
)

// In-process half of C14 (volume): the same generated histories as the end-to-end check, but the CLUSTER NODES
// texts are handed straight to the proxy's refresh step (core.VerifTopology.Feed: parse, change detection,
// publication; hook behind the build tag "verif") and the published replica sets are compared with the model
// after every step. What the refresh loop does around it (reply validation, the once-a-second probe, pools and
// the slot table inside the event loop) is only covered by the end-to-end check.

var (
	c14pOnce sync.Once
	c14pCl   *fakecluster.Cluster
)

func c14pCluster() *fakecluster.Cluster {
	c14pOnce.Do(func() {
		// the refresh step logs every change at INFO level; uninitialised, the logger prints to stdout
		dir, _ := os.MkdirTemp(os.Getenv("VERIF_WORK"), "inproc-log-")
		logging.InitializeLogger(logging.WithPath(dir), logging.WithExpireDay(1), logging.WithLogLevel("FATAL"))
		cl, err := fakecluster.New(c14Nodes)
		if err != nil {
			harnessProblem("cannot build the fake cluster: %v", err)
		}
		c14pCl = cl
	})
	return c14pCl
}

// c14pTable turns published replica sets into slot -> owner (node indexes).
func c14pTable(cl *fakecluster.Cluster, sets []core.VerifSet) ([]fakecluster.SlotOwner, string) {
	idx := map[string]int{}
	for i, n := range cl.Nodes {
		idx[n.Addr] = i
	}
	out := make([]fakecluster.SlotOwner, 16384)
	for i := range out {
		out[i].Master = -1
	}
	for _, s := range sets {
		m, ok := idx[s.Master]
		if !ok {
			return nil, fmt.Sprintf("published master address %q belongs to no node of the description", s.Master)
		}
		var reps []int
		for _, r := range s.Replicas {
			ri, ok := idx[r]
			if !ok {
				return nil, fmt.Sprintf("published replica address %q belongs to no node of the description", r)
			}
			reps = append(reps, ri)
		}
		sort.Ints(reps)
		for _, r := range s.Slots {
			for x := r[0]; x <= r[1]; x++ {
				if x < 0 || x >= 16384 {
					return nil, fmt.Sprintf("published slot %d out of range", x)
				}
				out[x] = fakecluster.SlotOwner{Master: m, Replicas: reps}
			}
		}
	}
	return out, ""
}

func c14pSameOwner(g, w fakecluster.SlotOwner) bool {
	if g.Master != w.Master || len(g.Replicas) != len(w.Replicas) {
		return false
	}
	for i := range g.Replicas {
		if g.Replicas[i] != w.Replicas[i] {
			// the order of replicas carries no meaning
			a, b := append([]int(nil), g.Replicas...), append([]int(nil), w.Replicas...)
			sort.Ints(a)
			sort.Ints(b)
			for k := range a {
				if a[k] != b[k] {
					return false
				}
			}
			return true
		}
	}
	return true
}

func c14pDiff(got, want []fakecluster.SlotOwner) string {
	for s := range want {
		if !c14pSameOwner(got[s], want[s]) {
			return fmt.Sprintf("slot %d: published master %d replicas %v; the description says master %d, usable replicas %v (-1 = nobody)", s, got[s].Master, got[s].Replicas, want[s].Master, want[s].Replicas)
		}
	}
	return ""
}

func c14ParseExec(c *c14Case) ([]Discrepancy, []string) {
	var trace []string
	cl := c14pCluster()
	m, _ := c14InitialModel(cl, c)
	idx := map[string]int{}
	for i, n := range cl.Nodes {
		idx[n.Addr] = i
	}
	vt := core.NewVerifTopology(func(addr string) core.VerifInfo {
		switch m.infoBad[idx[addr]] {
		case "loading":
			return core.VerifInfo{Loading: true, LinkUp: true}
		case "linkdown":
			return core.VerifInfo{}
		}
		return core.VerifInfo{LinkUp: true}
	})
	feed := func() (bool, error) {
		text := m.topo.Render(cl, 0)
		return vt.Feed(strings.TrimSuffix(text, "\n")) // the refresh loop strips the final newline with the bulk trailer
	}
	check := func(what string, sig string) []Discrepancy {
		got, msg := c14pTable(cl, vt.Sets())
		if msg == "" {
			msg = c14pDiff(got, m.topo.Expected(m.excluded()))
		}
		if msg != "" {
			return []Discrepancy{disc(sig, "after %s: %s", what, msg)}
		}
		return nil
	}
	if m.countable() < 3 {
		return nil, trace // cannot start from this one
	}
	if _, err := feed(); err != nil {
		return []Discrepancy{disc("C14/parse-initial-topology-not-adopted", "the initial description was rejected: %v\n%s", err, m.topo.Render(cl, 0))}, trace
	}
	if ds := check("the initial description", "C14/parse-initial-topology-not-adopted"); ds != nil {
		return ds, trace
	}
	m.adopted()
	expected := m.topo.Expected(m.excluded())
	play := func(si int, s c14Step) []Discrepancy {
		beforeTopo, beforeBad := m.topo.Clone(), map[int]string{}
		for k, v := range m.infoBad {
			beforeBad[k] = v
		}
		desc := m.apply(s)
		if desc == "" {
			trace = append(trace, fmt.Sprintf("step %d: %s not applicable, skipped", si, c14KindNames[s.Kind]))
			return nil
		}
		if m.countable() < 3 && m.countableMax() >= 3 {
			m.topo, m.infoBad = beforeTopo, beforeBad
			trace = append(trace, fmt.Sprintf("step %d: %s would leave the node count open to interpretation, skipped", si, c14KindNames[s.Kind]))
			return nil
		}
		usable := m.countable() >= 3
		trace = append(trace, fmt.Sprintf("step %d: %s (countable nodes %d)", si, desc, m.countable()))
		changed, err := feed()
		if !usable {
			if err == nil {
				return []Discrepancy{disc("C14/parse-unusable-description-accepted", "step %d (%s): the description has fewer than three usable nodes but was accepted:\n%s", si, desc, m.topo.Render(cl, 0))}
			}
			got, msg := c14pTable(cl, vt.Sets())
			if msg == "" {
				msg = c14pDiff(got, expected)
			}
			if msg != "" {
				return []Discrepancy{disc("C14/parse-unusable-reply-changed-routing", "step %d (%s): the description is unusable, the previous map should be in force, but %s", si, desc, msg)}
			}
			return nil
		}
		if err != nil {
			return []Discrepancy{disc("C14/parse-valid-description-rejected", "step %d (%s): a description with %d usable nodes was rejected: %v\n%s", si, desc, m.countable(), err, m.topo.Render(cl, 0))}
		}
		want := m.topo.Expected(m.excluded())
		if ds := check(fmt.Sprintf("step %d (%s)", si, desc), "C14/parse-not-converged"); ds != nil {
			ds[0].Msg += "\n" + m.topo.Render(cl, 0)
			return ds
		}
		if !changed && c14pDiff(want, expected) != "" {
			return []Discrepancy{disc("C14/parse-change-not-published", "step %d (%s): the routing of the description differs from the previous one, but the refresh step did not flag a change for the event loop", si, desc)}
		}
		expected = want
		m.adopted()
		return nil
	}
	for si, s := range c.Steps {
		switch {
		case s.Kind == 23:
			// lines with fewer than 8 columns: nothing usable
			cp := m.topo.Clone()
			for i := range cp.Nodes {
				cp.Nodes[i].Short = true
			}
			_, err := vt.Feed(strings.TrimSuffix(cp.Render(cl, 0), "\n"))
			trace = append(trace, fmt.Sprintf("step %d: %s", si, c14KindNames[s.Kind]))
			if err == nil {
				return []Discrepancy{disc("C14/parse-unusable-description-accepted", "step %d: a text whose lines all have fewer than 8 columns was accepted", si)}, trace
			}
			got, msg := c14pTable(cl, vt.Sets())
			if msg == "" {
				msg = c14pDiff(got, expected)
			}
			if msg != "" {
				return []Discrepancy{disc("C14/parse-unusable-reply-changed-routing", "step %d (short lines): %s", si, msg)}, trace
			}
		case s.Kind >= 20:
			// error / nil / oversized replies never reach the parse step
			continue
		case s.Kind == 14:
			ab := []int{4, 5, 6, 7, 8, 4, 6, 7}
			if ds := play(si, c14Step{Kind: ab[s.A%len(ab)], A: s.B, B: s.C, C: s.C}); ds != nil {
				return ds, trace
			}
			if ds := play(si, c14Step{Kind: ab[s.B%len(ab)], A: s.C, B: s.A, C: (s.C * 7) % 16384}); ds != nil {
				return ds, trace
			}
		default:
			if ds := play(si, s); ds != nil {
				return ds, trace
			}
		}
	}
	return nil, trace
}

func init() {
	c14ParseHook = c14ParseExec
	c14TableHook = c14NodeTableRun
}

type c14ParseCase struct {
	Level string  `json:"level"` // "refresh-step": replayed in-process
	Case  c14Case `json:"case"`
}

func TestC14Parse(t *testing.T) {
	rec := evidence.For("C14")
	rapidCheck(t, func(t *rapid.T) {
		c := c14Gen(t)
		// longer histories are cheap here
		extra := rapid.IntRange(0, 10).Draw(t, "moresteps")
		kinds := []int{0, 1, 2, 2, 3, 4, 4, 5, 6, 6, 7, 7, 8, 8, 9, 10, 11, 12, 13, 14, 15, 23}
		for i := 0; i < extra; i++ {
			c.Steps = append(c.Steps, c14Step{Kind: rapid.SampledFrom(kinds).Draw(t, "kind"), A: rapid.IntRange(0, 1000).Draw(t, "a"), B: rapid.IntRange(0, 1000).Draw(t, "b"), C: rapid.IntRange(0, 16383).Draw(t, "c")})
		}
		nt, cls := c14Classify(&c)
		for i := range cls {
			cls[i] = "refresh-" + cls[i]
		}
		pc := c14ParseCase{Level: "refresh-step", Case: c}
		raw, _ := json.Marshal(&c)
		rec.CaseKey(fnv64(raw)^0x14, nt, func() interface{} { return pc }, cls...)
		ds, _ := c14ParseExec(&c)
		report(t, "C14", &pc, ds)
	})
}

// TestC14NodeTable: one long-lived topology state is fed thousands of alternating descriptions (nodes leave and
// come back, as after every fail-over or restart); after every publication the node table must hold exactly the
// nodes of the description. (The lock-free map first used for the table lost entries after a few hundred
// delete/insert rounds of the same keys: finding 23.)
func c14NodeTableRun(rounds, seed int) []Discrepancy {
	c14pCluster()
	line := func(i int, master bool, mid string, slots string) string {
		role := "slave"
		if master {
			role = "master"
			mid = "-"
		}
		return fmt.Sprintf("%040d 10.0.0.%d:7000 %s %s 0 1 %d connected%s", i, i, role, mid, i, slots)
	}
	vt := core.NewVerifTopology(func(addr string) core.VerifInfo { return core.VerifInfo{LinkUp: true} })
	for it := 0; it < rounds; it++ {
		n := 3 + (it*7+seed)%9 // 3..11 replicas beside the three masters
		desc := []string{line(1, true, "", " 0-5000"), line(2, true, "", " 5001-10000"), line(3, true, "", " 10001-16383")}
		want := map[string]bool{"10.0.0.1:7000": false, "10.0.0.2:7000": false, "10.0.0.3:7000": false}
		for i := 4; i < 4+n; i++ {
			if (it+i+seed)%5 == 0 {
				continue // this replica is away in this round
			}
			desc = append(desc, line(i, false, fmt.Sprintf("%040d", 1+i%3), ""))
			want[fmt.Sprintf("10.0.0.%d:7000", i)] = true
		}
		if _, err := vt.Feed(strings.Join(desc, "\n")); err != nil {
			return []Discrepancy{disc("C14/parse-valid-description-rejected", "round %d: %v", it, err)}
		}
		got := vt.Known()
		ok := len(got) == len(want)
		for a, isReplica := range want {
			if r, present := got[a]; !present || r != isReplica {
				ok = false
			}
		}
		if !ok {
			return []Discrepancy{disc("C14/parse-node-table-lost-entries", "after %d published descriptions on one topology state the node table holds %d entries %v; the description just adopted has %d nodes %v", it+1, len(got), got, len(want), want)}
		}
	}
	return nil
}

type c14TableCase struct {
	Level  string `json:"level"` // "node-table"
	Rounds int    `json:"rounds"`
	Seed   int    `json:"seed"`
}

func TestC14NodeTable(t *testing.T) {
	rec := evidence.For("C14")
	rounds := envInt("VERIF_C14_TABLE_ROUNDS", 6000)
	if thorough() {
		rounds = envInt("VERIF_C14_TABLE_ROUNDS", 400000)
	}
	seed := envInt("VERIF_SEED", 1)*131 + envInt("VERIF_SHARD", 0)*17
	c := c14TableCase{Level: "node-table", Rounds: rounds, Seed: seed}
	rec.Add("node_table_publications_checked", rounds)
	rec.CaseKey(uint64(0x14aa)+uint64(seed), true, func() interface{} { return c }, "refresh-node-table-after-many-publications")
	report(t, "C14", &c, c14NodeTableRun(rounds, seed))
}
