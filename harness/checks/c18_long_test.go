package checks

import (
	"encoding/json"
	"fmt"
	"os"
	"path/filepath"
	"testing"
	"time"

	"verifharness/evidence"
	"verifharness/fakecluster"
	"verifharness/sut"
)

// Long whitelist histories (C18 is stated for all histories of edits): one proxy, N reloads, each replacing the
// list by the addresses i with (round+i) % 3 != 0 (several addresses leave and return in every reload); after
// every reload the admitted set must equal the file's set within 5 s.

type c18LongCase struct {
	Level   string `json:"level"` // "long-history"
	Reloads int    `json:"reloads"`
	Offset  int    `json:"offset"`
}

func c18LongRun(c *c18LongCase) []Discrepancy {
	cl, err := fakecluster.New(3)
	if err != nil {
		harnessProblem("cannot build the fake cluster: %v", err)
	}
	defer cl.Close()
	topo := fakecluster.EvenTopo(cl, 3, 0)
	var f *Fixture
	for attempt := 0; attempt < 3; attempt++ {
		f, err = startFixtureWith(cl, topo, sut.Config{WhitelistEnable: false}, []int{0, 1}, nil)
		if err == nil {
			break
		}
		time.Sleep(time.Second)
	}
	if err != nil {
		return []Discrepancy{disc("C18/proxy-does-not-serve", "the proxy did not start: %v", err)}
	}
	defer f.Proxy.Stop()
	file := filepath.Join(f.Proxy.ConfDir(), "authip.yaml")
	round := 0
	for it := 0; it < c.Reloads; it++ {
		set := map[int]bool{}
		var list []string
		for i := 1; i <= 8; i++ {
			if (it+i+c.Offset)%3 != 0 {
				set[i] = true
				list = append(list, fmt.Sprintf("127.0.0.%d", i))
			}
		}
		content := []byte(sut.AuthipYAML(true, list))
		if it%2 == 0 {
			tmp := file + ".tmp"
			os.WriteFile(tmp, content, 0o644)
			err = os.Rename(tmp, file)
		} else {
			err = os.WriteFile(file, content, 0o644)
		}
		if err != nil {
			harnessProblem("cannot write the whitelist file: %v", err)
		}
		deadline := time.Now().Add(5 * time.Second)
		for {
			round++
			adm, problems := c18Observe(f, round)
			last := ""
			for ip := 1; ip <= 8; ip++ {
				if adm[ip] != set[ip] {
					verb := "is refused although the file admits it"
					if adm[ip] {
						verb = "is served although the file does not admit it"
					}
					last = fmt.Sprintf("127.0.0.%d %s (list %v)", ip, verb, list)
					break
				}
			}
			if last == "" && len(problems) > 0 {
				last = problems[0]
			}
			if last == "" {
				break
			}
			if !f.Proxy.Alive() {
				return f.checkAlive("C18", nil)
			}
			if time.Now().After(deadline) {
				return []Discrepancy{disc("C18/admission-differs-from-file", "5 s after reload %d of one long history (every reload lists the addresses i with (reload+i) %% 3 != 0): %s", it+1, last)}
			}
			time.Sleep(100 * time.Millisecond)
		}
	}
	return nil
}

func init() {
	c18LongHook = func(raw json.RawMessage) ([]Discrepancy, bool) {
		var c c18LongCase
		if json.Unmarshal(raw, &c) == nil && c.Level == "long-history" {
			return c18LongRun(&c), true
		}
		return nil, false
	}
}

func TestC18Long(t *testing.T) {
	rec := evidence.For("C18")
	n := envInt("VERIF_C18_RELOADS", 90)
	if thorough() {
		n = envInt("VERIF_C18_RELOADS", 6000)
	}
	c := c18LongCase{Level: "long-history", Reloads: n, Offset: envInt("VERIF_SEED", 1)*3 + envInt("VERIF_SHARD", 0)}
	rec.Add("reloads_in_long_histories", n)
	rec.CaseKey(uint64(0x18aa+c.Offset), true, func() interface{} { return c }, "long-history-of-reloads")
	report(t, "C18", &c, c18LongRun(&c))
}
