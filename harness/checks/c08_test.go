package checks

import (
	"bytes"
	"encoding/json"
	"fmt"
	"testing"
	"time"

	"pgregory.net/rapid"

	"verifharness/evidence"
	"verifharness/rclient"
	"verifharness/refmodel"
	"verifharness/sut"
)

// C08: the requests the proxy extracts from a client's byte stream depend only on the bytes, not on how
// they are cut into reads; a proper prefix of a valid request is waited for, never treated as an error.

type c08Case struct {
	Cfg      sut.Config `json:"cfg"`
	Spec     PipeSpec   `json:"spec"`
	PrefixAt int        `json:"prefix_at"` // >0: write this many bytes, pause, check silence, then write the rest
	PauseMs  int        `json:"pause_ms"`
}

var c08Configs = []sut.Config{
	{}, {BufCap: 1}, {BufCap: 2}, {}, {BufCap: 3}, {BufCap: 5}, {DisableSlave: true}, {BufCap: 8}, {BufCap: 16}, {BufCap: 64}, {BufCap: 7}, {BufCap: 4096},
}

func c08Gen(t *rapid.T) c08Case {
	var c c08Case
	c.Cfg = rapid.SampledFrom(shardPick(c08Configs, 3)).Draw(t, "cfg")
	small := c.Cfg.BufCap > 0 && c.Cfg.BufCap < 64
	maxLong := 70000
	maxReqs := 60
	if small {
		maxLong, maxReqs = 1500, 25
	}
	n := rapid.IntRange(1, maxReqs).Draw(t, "nreq")
	names := docs.SingleKeyNames()
	var cs ClientSpec
	if !small && rapid.IntRange(0, 11).Draw(t, "manytiny") == 0 {
		// more than a thousand complete tiny requests in one segment (one read of the proxy holds them all)
		cnt := rapid.SampledFrom([]int{1023, 1024, 1025, 1100, 2049, 3000}).Draw(t, "tinycount")
		mix := rapid.IntRange(0, 2).Draw(t, "tinymix")
		for ri := 0; ri < cnt; ri++ {
			if mix == 0 || (mix == 2 && ri%4 != 0) {
				cs.Reqs = append(cs.Reqs, Req{Name: Bin("PING")})
			} else {
				cs.Reqs = append(cs.Reqs, Req{Name: Bin("get"), Args: []Bin{Bin(fmt.Sprintf("t%d", ri))}})
			}
		}
		if rapid.Bool().Draw(t, "tinycut") {
			total := 0
			for i := range cs.Reqs {
				total += len(cs.Reqs[i].Encode())
			}
			cs.Cuts = []int{rapid.IntRange(1, total-1).Draw(t, "tinycutat")}
		}
		c.Spec.Clients = []ClientSpec{cs}
		return c
	}
	for ri := 0; ri < n; ri++ {
		var r Req
		switch rapid.IntRange(0, 9).Draw(t, "kind") {
		case 0:
			r = Req{Name: genCaseName("ping").Draw(t, "cased")}
		case 1, 2:
			r = genMultiKeyReq(t, 6, []string{"mget", "del", "mset"})
			// keep keys unique per request so that the backend log identifies it
			step := 1
			if r.lname() == "mset" {
				step = 2
			}
			for i := 0; i < len(r.Args); i += step {
				r.Args[i] = append(append(Bin{}, r.Args[i]...), []byte(fmt.Sprintf("#%d", ri))...)
			}
		default:
			name := rapid.SampledFrom(names).Draw(t, "name")
			nargs := refmodel.ValidNargs(name, rapid.IntRange(0, 2).Draw(t, "extra"))
			r = Req{Name: genCaseName(name).Draw(t, "cased")}
			for a := 0; a < nargs; a++ {
				r.Args = append(r.Args, Bin(genArg(maxLong).Draw(t, "arg")))
			}
			if name == "eval" || name == "evalsha" {
				r.Args[1] = Bin("1")
			}
		}
		cs.Reqs = append(cs.Reqs, r)
	}
	var total int
	for i := range cs.Reqs {
		total += len(cs.Reqs[i].Encode())
	}
	switch rapid.IntRange(0, 3).Draw(t, "mode") {
	case 0:
		// prefix experiment: cut strictly inside the stream
		if total > 1 {
			c.PrefixAt = rapid.IntRange(1, total-1).Draw(t, "prefixat")
			c.PauseMs = rapid.SampledFrom([]int{30, 80, 150}).Draw(t, "pausems")
		}
	default:
		cs.Cuts = genCuts(total).Draw(t, "cuts")
		if len(cs.Cuts) > 0 {
			cs.PauseUs = rapid.SampledFrom([]int{0, 100, 400, 2000}).Draw(t, "pause")
		}
	}
	c.Spec.Clients = []ClientSpec{cs}
	c.Spec.Abandoned = genAbandoned(t)
	return c
}

func c08Stream(c *c08Case) ([]byte, []int) {
	var stream []byte
	var ends []int
	for i := range c.Spec.Clients[0].Reqs {
		stream = append(stream, c.Spec.Clients[0].Reqs[i].Encode()...)
		ends = append(ends, len(stream))
	}
	return stream, ends
}

func c08Classify(c *c08Case) (bool, []string) {
	stream, ends := c08Stream(c)
	isEnd := map[int]bool{}
	for _, e := range ends {
		isEnd[e] = true
	}
	inside := 0
	var cls []string
	if c.PrefixAt > 0 {
		cls = append(cls, "prefix-pause")
		if !isEnd[c.PrefixAt] {
			inside++
			cls = append(cls, "prefix-cut-inside-request")
			if c.PrefixAt > 0 && stream[c.PrefixAt-1] == '\r' {
				cls = append(cls, "cut-between-cr-and-lf")
			}
		}
	}
	pos := 0
	for _, s := range c.Spec.Clients[0].Cuts {
		pos += s
		if pos >= len(stream) {
			break
		}
		if !isEnd[pos] {
			inside++
		}
	}
	if len(c.Spec.Clients[0].Cuts) > 0 {
		cls = append(cls, "segmented")
	}
	if c.Cfg.BufCap > 0 {
		cls = append(cls, fmt.Sprintf("bufcap-%d", c.Cfg.BufCap))
		if c.Cfg.BufCap < len(stream) {
			inside += 2 // every read is cut at the cap
		}
	}
	if len(stream) > 65536 {
		cls = append(cls, "stream-over-64k")
		inside += 2
	}
	if len(c.Spec.Abandoned) > 0 {
		cls = append(cls, "after-clients-that-left-mid-request")
	}
	if len(c.Spec.Clients[0].Reqs) > 1000 {
		cls = append(cls, "over-a-thousand-requests-in-one-segment")
		inside += 2
	}
	return inside >= 2 || (inside >= 1 && c.PrefixAt > 0), cls
}

func c08Exec(c *c08Case) []Discrepancy {
	f := getFixture("C08", c.Cfg, 3, 1)
	ds := c08Run(f, c)
	if len(ds) > 0 {
		dropFixture(f)
	}
	return ds
}

func c08Run(f *Fixture, c *c08Case) []Discrepancy {
	var ds []Discrepancy
	if c.PrefixAt == 0 {
		ds = pipeRunCompare("C08", f, &c.Cfg, &c.Spec, 0)
	} else {
		ds = c08Prefix(f, c)
	}
	if len(ds) > 0 {
		return ds
	}
	// backend side: the forwarded requests are exactly the generated ones (single-key requests byte-exact
	// modulo the case of the name; fragments of split requests by the reference split), none lost or duplicated
	var exp [][]byte
	for i := range c.Spec.Clients[0].Reqs {
		r := &c.Spec.Clients[0].Reqs[i]
		name := r.lname()
		switch {
		case refmodel.Local(name):
		case refmodel.MultiKey(name):
			for _, fr := range refSplit(name, r.Args) {
				args := [][]byte{[]byte(name)}
				args = append(args, fr.Args...)
				exp = append(exp, refmodel.EncodeCmd(args...))
			}
		default:
			all := [][]byte{[]byte(name)}
			for _, a := range r.Args {
				all = append(all, a)
			}
			exp = append(exp, refmodel.EncodeCmd(all...))
		}
	}
	var got [][]byte
	for _, lr := range f.Cluster.Log() {
		if k := lr.Key(1); bytes.Contains([]byte(k), []byte("}witness-")) || bytes.HasSuffix([]byte(k), []byte("}ready")) {
			continue
		}
		got = append(got, lr.Raw)
	}
	sortBytes(exp)
	sortBytes(got)
	if len(got) != len(exp) {
		ds = append(ds, disc("C08/backend-request-count", "the backends received %d commands, the byte stream contains %d forwarded requests/fragments", len(got), len(exp)))
		return ds
	}
	for i := range exp {
		if !bytes.Equal(exp[i], got[i]) {
			ds = append(ds, disc("C08/backend-request-content", "a backend received %s; expected %s", q(got[i]), q(exp[i])))
			break
		}
	}
	return ds
}

// c08Prefix writes a proper prefix, checks that the proxy neither answers beyond the complete requests nor
// closes the connection while it waits, then writes the rest and expects the normal replies.
func c08Prefix(f *Fixture, c *c08Case) []Discrepancy {
	var ds []Discrepancy
	rc := &refCtx{Password: c.Cfg.Password, MaxLen: c.Cfg.MaxLen, Owners: f.Owners}
	pi := indexPlans(&c.Spec)
	exp := expectedFor(&c.Spec.Clients[0], pi, rc)
	stream, ends := c08Stream(c)
	complete := 0
	for _, e := range ends {
		if e <= c.PrefixAt {
			complete++
		}
	}
	f.Cluster.ResetLog()
	f.Cluster.SetHandler(pi.handler(&gateSet{openAll: true}))
	defer f.Cluster.SetHandler(nil)
	abandon(f, c.Spec.Abandoned)
	cl, err := rclient.Dial(f.Proxy.Addr(), "")
	if err != nil {
		return []Discrepancy{disc("C08/connect", "cannot connect: %v", err)}
	}
	defer cl.Close()
	if err := cl.Write(stream[:c.PrefixAt]); err != nil {
		return []Discrepancy{disc("C08/closed-while-writing", "write of the prefix failed: %v", err)}
	}
	cl.WaitReplies(complete, 5*time.Second)
	time.Sleep(time.Duration(c.PauseMs) * time.Millisecond)
	st := cl.Snapshot()
	if st.EOF {
		ds = append(ds, disc("C08/prefix-closed", "the proxy closed the connection while %d bytes of a valid request were still to come (prefix of %d bytes ends with %s)", len(stream)-c.PrefixAt, c.PrefixAt, q(tailBytes(stream[:c.PrefixAt], 24))))
		return ds
	}
	if len(st.Replies) > complete || (len(st.Replies) == complete && len(st.Pending) > 0) {
		ds = append(ds, disc("C08/prefix-answered", "after a proper prefix holding %d complete requests the client has %d replies and %d pending bytes", complete, len(st.Replies), len(st.Pending)))
		return ds
	}
	if err := cl.Write(stream[c.PrefixAt:]); err != nil {
		return []Discrepancy{disc("C08/closed-while-writing", "write of the remainder failed: %v", err)}
	}
	waitClients(f, []*rclient.Client{cl}, []int{len(exp)}, 8*time.Second)
	res := &PipeResult{Clients: make([]ClientResult, 1)}
	res.collect(f, []*rclient.Client{cl})
	ds = f.checkAlive("C08", ds)
	if len(ds) > 0 {
		return ds
	}
	return compareReplies("C08", 0, &res.Clients[0], exp, ds)
}

func tailBytes(b []byte, n int) []byte {
	if len(b) > n {
		return b[len(b)-n:]
	}
	return b
}

func init() {
	registerReplay("C08", func(raw json.RawMessage) ([]Discrepancy, error) {
		var c c08Case
		if err := json.Unmarshal(raw, &c); err != nil {
			return nil, err
		}
		return c08Exec(&c), nil
	})
}

func TestC08(t *testing.T) {
	rec := evidence.For("C08")
	rapidCheck(t, func(t *rapid.T) {
		c := c08Gen(t)
		nt, cls := c08Classify(&c)
		rec.Case(&c, nt, cls...)
		report(t, "C08", &c, c08Exec(&c))
	})
}
