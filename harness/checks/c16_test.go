package checks

import (
	"bytes"
	"encoding/json"
	"fmt"
	"testing"
	"time"

	"pgregory.net/rapid"

	"verifharness/evidence"
	"verifharness/fakecluster"
	"verifharness/rclient"
	"verifharness/refmodel"
	"verifharness/sut"
)

// C16: with a request timeout configured, a request whose backend does not answer in time gets exactly one
// timeout error in its pipeline position, a late reply is discarded, and the connection stays usable.

type c16Req struct {
	Kind  string `json:"kind"`  // get | mget
	Stall bool   `json:"stall"` // the backend (node 2) does not answer this request / one fragment of it in time
	Near  bool   `json:"near"`  // not stalled itself but served by the stalling node (queued behind the stall)
	Moved bool   `json:"moved"` // (stalled requests) the stalling node first answers -MOVED to node 1, which then stalls
	Late  bool   `json:"late"`  // (moved requests) the -MOVED itself comes only after the timeout has expired
	Both  bool   `json:"both,omitempty"` // (stalled MGETs that are not moved) both fragments are stalled, not just one
}

type c16Case struct {
	TimeoutMs int      `json:"timeout_ms"`
	Reqs      []c16Req `json:"reqs"`
	LateMs    int      `json:"late_ms"`      // how long after the last timeout error the stalled replies are finally sent
	Kill      bool     `json:"kill_instead"` // the stalling node never answers: its connections are dropped while a follow-up to a healthy node is in flight
	// Again: once the pipeline is answered, a second one follows on the same connection - a request that stalls
	// too and a healthy one behind it: again exactly one timeout error, then the healthy reply
	Again bool `json:"second_round,omitempty"`
}

const (
	c16SlotA     = 100   // node 0
	c16SlotB     = 6000  // node 1
	c16SlotStall = 12000 // node 2: the stalling node
)

func c16Enum() []c16Case {
	var out []c16Case
	for _, to := range []int{100, 300} {
		for n := 1; n <= 4; n++ {
			for mask := 1; mask < 1<<uint(n); mask++ {
				c := c16Case{TimeoutMs: to, LateMs: 50}
				for i := 0; i < n; i++ {
					r := c16Req{Kind: "get", Stall: mask>>uint(i)&1 == 1}
					if (mask+i+n)%3 == 0 {
						r.Kind = "mget"
					}
					c.Reqs = append(c.Reqs, r)
				}
				if to == 300 && n > 2 {
					continue // keep the enumeration affordable: the long timeout only for short pipelines
				}
				out = append(out, c)
			}
		}
	}
	// split requests with both fragments stalled, followed by a second pipeline on the same connection
	for _, to := range []int{100, 300} {
		for _, lead := range []int{0, 1, 2} {
			c := c16Case{TimeoutMs: to, LateMs: 50, Again: true}
			for i := 0; i < lead; i++ {
				c.Reqs = append(c.Reqs, c16Req{Kind: "get"})
			}
			c.Reqs = append(c.Reqs, c16Req{Kind: "mget", Stall: true, Both: true})
			out = append(out, c)
		}
	}
	return out
}

func c16Gen(t *rapid.T) c16Case {
	c := c16Case{TimeoutMs: rapid.SampledFrom(shardPick([]int{100, 300}, 1)).Draw(t, "timeout"), LateMs: rapid.SampledFrom([]int{0, 30, 200}).Draw(t, "late")}
	c.Kill = rapid.IntRange(0, 2).Draw(t, "kill") == 0
	n := rapid.IntRange(1, 8).Draw(t, "n")
	anyStall := false
	for i := 0; i < n; i++ {
		r := c16Req{Kind: rapid.SampledFrom([]string{"get", "get", "mget"}).Draw(t, "kind")}
		switch rapid.IntRange(0, 4).Draw(t, "role") {
		case 0, 1:
			r.Stall = true
			r.Moved = rapid.IntRange(0, 2).Draw(t, "moved") == 0
			r.Late = r.Moved && rapid.Bool().Draw(t, "late")
			r.Both = r.Kind == "mget" && !r.Moved && rapid.Bool().Draw(t, "both")
			anyStall = true
		case 2:
			r.Near = true
		}
		c.Reqs = append(c.Reqs, r)
	}
	if !anyStall {
		c.Reqs[rapid.IntRange(0, n-1).Draw(t, "forcestall")].Stall = true
	}
	c.Again = rapid.Bool().Draw(t, "again")
	return c
}

// c16Build turns the symbolic case into requests; it returns the stalled keys.
func c16Build(c *c16Case) ([]Req, map[string]bool) {
	reqs, stalled, _ := c16Build2(c)
	return reqs, stalled
}

var c16Late = map[string]bool{}

func c16Build2(c *c16Case) ([]Req, map[string]bool, map[string]bool) {
	c16Late = map[string]bool{}
	moved := map[string]bool{}
	stalled := map[string]bool{}
	var reqs []Req
	// node 1 is the redirect target in cases with a moved slot, so healthy requests stay on node 0 there
	healthy := []int{c16SlotA, c16SlotB}
	for _, r := range c.Reqs {
		if r.Stall && r.Moved {
			healthy = []int{c16SlotA, c16SlotA + 1}
		}
	}
	for i, r := range c.Reqs {
		slot := healthy[i%2]
		if r.Stall || r.Near {
			slot = c16SlotStall
		}
		k := keyFor(slot, 0, i, 0)
		if r.Stall {
			stalled[string(k)] = true
			if r.Moved {
				moved[string(k)] = true
				if r.Late {
					c16Late[string(k)] = true
				}
			}
		}
		if r.Kind == "mget" {
			// a split request: one fragment on the (possibly stalling) node, one elsewhere
			k2 := keyFor(healthy[(i+1)%2], 0, i, 1)
			if r.Stall && r.Both && !r.Moved {
				k2 = keyFor(c16SlotStall+1, 0, i, 1) // a second slot of the stalling node: a fragment of its own
				stalled[string(k2)] = true
			}
			reqs = append(reqs, Req{Name: Bin("mget"), Args: []Bin{k2, k}})
		} else {
			reqs = append(reqs, Req{Name: Bin("get"), Args: []Bin{k}})
		}
	}
	return reqs, stalled, moved
}

func c16Exec(c *c16Case) []Discrepancy {
	f := getFixture("C16", sut.Config{TimeoutMs: c.TimeoutMs, ServerConns: 1}, 3, 0)
	ds := c16Run(f, c)
	if len(ds) > 0 {
		dropFixture(f)
	}
	return ds
}

func c16Run(f *Fixture, c *c16Case) []Discrepancy {
	reqs, stalled, moved := c16Build2(c)
	late := c16Late
	gates := &gateSet{}
	againStall, againOK := keyFor(c16SlotStall, 0, 950, 0), keyFor(c16SlotA, 0, 951, 0)
	if c.Again {
		stalled[string(againStall)] = true
	}
	f.Cluster.ResetLog()
	f.Cluster.SetHandler(func(req *fakecluster.Request) fakecluster.Action {
		a := fakecluster.Action{Reply: fakecluster.EchoReply(req)}
		for _, k := range keysOf(req.Name, req.Args) {
			if moved[string(k)] && req.Node == 2 {
				// the slot has moved: redirect to node 1, which will then keep the client waiting
				a := fakecluster.Action{Reply: []byte(fmt.Sprintf("-MOVED %d %s\r\n", refmodel.KeySlot(k), f.Cluster.Nodes[1].Addr))}
				if late[string(k)] {
					a.Delay = time.Duration(c.TimeoutMs+60) * time.Millisecond
				}
				return a
			}
			if stalled[string(k)] {
				a.Gate = gates.add(req.Seq)
				break
			}
		}
		return a
	})
	defer f.Cluster.SetHandler(nil)
	defer gates.releaseAll()

	pi := indexPlans(&PipeSpec{})
	rc := &refCtx{Owners: f.Owners}
	cl, err := rclient.Dial(f.Proxy.Addr(), "")
	if err != nil {
		return append(f.checkAlive("C16", nil), disc("C16/cannot-connect", "%v", err))
	}
	defer cl.Close()
	var stream []byte
	for i := range reqs {
		stream = append(stream, reqs[i].Encode()...)
	}
	sent := time.Now()
	if err := cl.Write(stream); err != nil {
		return []Discrepancy{disc("C16/closed-while-writing", "%v", err)}
	}
	limit := time.Duration(c.TimeoutMs)*time.Millisecond + 3*time.Second
	waitClients(f, []*rclient.Client{cl}, []int{len(reqs)}, limit)
	st := cl.Snapshot()
	var ds []Discrepancy
	ds = f.checkAlive("C16", ds)
	if len(ds) > 0 {
		return ds
	}
	if st.BadResp != nil {
		return []Discrepancy{disc("C16/malformed-reply-stream", "reply stream malformed after %d replies: %v (pending %s)", len(st.Replies), st.BadResp, q(st.Pending))}
	}
	for i, r := range st.Replies {
		if i >= len(reqs) {
			break
		}
		exp := expectFor(&reqs[i], pi, rc)
		switch {
		case c.Reqs[i].Stall:
			if early := r.Time.Sub(sent); isErrorReply(r.Raw) && early < time.Duration(c.TimeoutMs)*time.Millisecond/2 {
				ds = append(ds, disc("C16/timeout-error-before-the-timeout", "request %d of %d is stalled by its backend and was answered %s only %d ms after it was sent; the timeout is %d ms", i+1, len(reqs), q(r.Raw), early.Milliseconds(), c.TimeoutMs))
			}
			if !isErrorReply(r.Raw) {
				ds = append(ds, disc("C16/stalled-request-not-an-error", "request %d of %d was stalled by its backend; reply %d is %s instead of a timeout error", i+1, len(reqs), i+1, q(r.Raw)))
			}
		case c.Reqs[i].Near:
			if !exp.matches(r.Raw) && !isErrorReply(r.Raw) {
				ds = append(ds, disc("C16/wrong-reply", "request %d (queued behind the stall at the same node): reply is %s; expected %s or an error", i+1, q(r.Raw), exp))
			}
		default:
			if !exp.matches(r.Raw) {
				ds = append(ds, disc("C16/neighbour-disturbed", "request %d of %d was answered by a healthy backend, yet reply %d is %s; expected %s", i+1, len(reqs), i+1, q(r.Raw), exp))
			}
		}
		if len(ds) > 0 {
			return ds
		}
	}
	if len(st.Replies) < len(reqs) {
		what := "the connection is still open"
		if st.EOF {
			what = "the proxy closed the connection"
		}
		return []Discrepancy{disc("C16/missing-replies", "timeout %d ms: %.1f s after sending only %d of %d replies arrived and %s (stalled positions %v)", c.TimeoutMs, time.Since(sent).Seconds(), len(st.Replies), len(reqs), what, c16Stalled(c))}
	}
	if len(st.Replies) > len(reqs) {
		return []Discrepancy{disc("C16/extra-replies", "%d replies for %d requests (stalled positions %v): extra %s", len(st.Replies), len(reqs), c16Stalled(c), q(st.Replies[len(reqs)].Raw))}
	}
	base := len(reqs)
	if c.Again {
		t0 := time.Now()
		cl.Write(append(refmodel.EncodeCmdS("get", string(againStall)), refmodel.EncodeCmdS("get", string(againOK))...))
		waitClients(f, []*rclient.Client{cl}, []int{base + 2}, limit)
		st = cl.Snapshot()
		if ds = f.checkAlive("C16", nil); len(ds) > 0 {
			return ds
		}
		if len(st.Replies) < base+2 {
			what := "the connection is still open"
			if st.EOF {
				what = "the proxy closed the connection"
			}
			return []Discrepancy{disc("C16/second-round-missing-replies", "timeout %d ms: the first pipeline (stalled positions %v) was answered; of a second one on the same connection - a request whose backend stalls, then a healthy one - only %d of 2 replies arrived within %.1f s and %s", c.TimeoutMs, c16Stalled(c), len(st.Replies)-base, time.Since(t0).Seconds(), what)}
		}
		if r := st.Replies[base].Raw; !isErrorReply(r) {
			return []Discrepancy{disc("C16/stalled-request-not-an-error", "second pipeline: the stalled request was answered %s instead of a timeout error", q(r))}
		}
		if early := st.Replies[base].Time.Sub(t0); early < time.Duration(c.TimeoutMs)*time.Millisecond/2 {
			return []Discrepancy{disc("C16/timeout-error-before-the-timeout", "second pipeline (after the first one, stalled positions %v, was answered): the request whose backend stalls was answered %s only %d ms after it was sent; the timeout is %d ms", c16Stalled(c), q(st.Replies[base].Raw), early.Milliseconds(), c.TimeoutMs)}
		}
		if r, want := st.Replies[base+1].Raw, refmodel.Bulk(fakecluster.EchoValue("get", string(againOK))); !bytes.Equal(r, want) {
			return []Discrepancy{disc("C16/neighbour-disturbed", "second pipeline: the request behind the stalled one was answered by a healthy backend, yet its reply is %s; expected %s", q(r), q(want))}
		}
		base += 2
	}
	fk1 := keyFor(c16SlotA, 0, 900, 0)
	fk2 := keyFor(c16SlotStall, 0, 901, 0)
	if c.Kill {
		// the stalled node never answers; a follow-up through a healthy node is in flight (its reply held for a
		// moment) when the stalled node's connections go away: the follow-up must still get its own reply
		held := &gateSet{}
		f.Cluster.SetHandler(func(req *fakecluster.Request) fakecluster.Action {
			a := fakecluster.Action{Reply: fakecluster.EchoReply(req)}
			if req.Key(1) == string(fk1) {
				a.Gate = held.add(req.Seq)
			}
			return a
		})
		cl.Write(refmodel.EncodeCmdS("get", string(fk1)))
		for i := 0; i < 200; i++ {
			if total, _ := held.counts(); total > 0 {
				break
			}
			time.Sleep(time.Millisecond)
		}
		f.Cluster.CloseDataConns(2, c.LateMs%2 == 1)
		time.Sleep(20 * time.Millisecond)
		held.releaseAll()
		cl.Write(refmodel.EncodeCmdS("get", string(fk2)))
	} else {
		// now the backend finally answers the stalled requests: the late replies must be discarded
		time.Sleep(time.Duration(c.LateMs) * time.Millisecond)
		gates.releaseAll()
		time.Sleep(20 * time.Millisecond)
		// the connection stays usable: a follow-up through a healthy node is answered with its own reply,
		// and one through the node that stalled is answered too
		cl.Write(append(refmodel.EncodeCmdS("get", string(fk1)), refmodel.EncodeCmdS("get", string(fk2))...))
	}
	waitClients(f, []*rclient.Client{cl}, []int{base + 2}, 5*time.Second)
	time.Sleep(30 * time.Millisecond)
	st = cl.Snapshot()
	if len(st.Replies) < base+2 {
		return []Discrepancy{disc("C16/connection-unusable-after-timeout", "after the timeout errors the follow-up requests got %d of 2 replies (eof=%v)", len(st.Replies)-base, st.EOF)}
	}
	want1 := refmodel.Bulk(fakecluster.EchoValue("get", string(fk1)))
	want2 := refmodel.Bulk(fakecluster.EchoValue("get", string(fk2)))
	if got := st.Replies[base].Raw; !bytes.Equal(got, want1) {
		ds = append(ds, disc("C16/late-reply-delivered", "the follow-up request through a healthy node was answered %s instead of %s: a late reply or a stray error was delivered in its place", q(got), q(want1)))
	}
	if got := st.Replies[base+1].Raw; !bytes.Equal(got, want2) && !isErrorReply(got) {
		ds = append(ds, disc("C16/late-reply-delivered", "the follow-up request through the node that stalled was answered %s instead of %s", q(got), q(want2)))
	}
	if len(st.Replies) > base+2 || len(st.Pending) > 0 {
		ds = append(ds, disc("C16/extra-replies", "stray data after the follow-up replies: %d replies too many, pending %s", len(st.Replies)-base-2, q(st.Pending)))
	}
	return ds
}

func c16Stalled(c *c16Case) []int {
	var out []int
	for i, r := range c.Reqs {
		if r.Stall {
			out = append(out, i+1)
		}
	}
	return out
}

func c16Classify(c *c16Case) (bool, []string) {
	nt := false
	var cls []string
	for i, r := range c.Reqs {
		if !r.Stall {
			continue
		}
		if i > 0 && i < len(c.Reqs)-1 {
			nt = true
			cls = append(cls, "stall-in-the-middle")
		}
		if r.Kind == "mget" {
			nt = true
			cls = append(cls, "stalled-fragment-of-split-request")
		}
		if r.Moved {
			nt = true
			cls = append(cls, "stall-after-redirect")
		}
		if r.Late {
			cls = append(cls, "redirection-arrives-after-the-timeout")
		}
		if r.Both && r.Kind == "mget" && !r.Moved {
			cls = append(cls, "both-fragments-of-a-split-request-stalled")
		}
	}
	if c.Kill {
		cls = append(cls, "stalled-connection-dropped-with-a-follow-up-in-flight")
	}
	if c.Again {
		cls = append(cls, "second-pipeline-with-another-stall")
	}
	cls = append(cls, fmt.Sprintf("timeout-%d", c.TimeoutMs), fmt.Sprintf("pipeline-%d", len(c.Reqs)))
	return nt, dedup(cls)
}

func init() {
	registerReplay("C16", func(raw json.RawMessage) ([]Discrepancy, error) {
		var c c16Case
		if err := json.Unmarshal(raw, &c); err != nil {
			return nil, err
		}
		return c16Exec(&c), nil
	})
}

func TestC16Enum(t *testing.T) {
	rec := evidence.For("C16")
	all := c16Enum()
	shards, me := envInt("VERIF_SHARDS", 1), envInt("VERIF_SHARD", 0)
	for i := range all {
		if i%shards != me {
			continue
		}
		c := all[i]
		nt, cls := c16Classify(&c)
		rec.Case(&c, nt, append(cls, "enumerated")...)
		report(t, "C16", &c, c16Exec(&c))
	}
	rec.Add("enumerated_stall_subsets_total", len(all))
}

func TestC16(t *testing.T) {
	rec := evidence.For("C16")
	rapidCheck(t, func(t *rapid.T) {
		c := c16Gen(t)
		nt, cls := c16Classify(&c)
		rec.Case(&c, nt, cls...)
		report(t, "C16", &c, c16Exec(&c))
	})
}
