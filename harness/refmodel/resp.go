package refmodel

import (
	"bytes"
	"errors"
	"fmt"
	"strconv"
)

// EncodeCmd encodes a command as a RESP multibulk request.
func EncodeCmd(args ...[]byte) []byte {
	var b bytes.Buffer
	b.WriteByte('*')
	b.WriteString(strconv.Itoa(len(args)))
	b.WriteString("\r\n")
	for _, a := range args {
		b.WriteByte('$')
		b.WriteString(strconv.Itoa(len(a)))
		b.WriteString("\r\n")
		b.Write(a)
		b.WriteString("\r\n")
	}
	return b.Bytes()
}

// EncodeCmdS encodes string arguments.
func EncodeCmdS(args ...string) []byte {
	bs := make([][]byte, len(args))
	for i, a := range args {
		bs[i] = []byte(a)
	}
	return EncodeCmd(bs...)
}

// Bulk encodes a bulk string reply.
func Bulk(b []byte) []byte {
	out := make([]byte, 0, len(b)+16)
	out = append(out, '$')
	out = strconv.AppendInt(out, int64(len(b)), 10)
	out = append(out, '\r', '\n')
	out = append(out, b...)
	return append(out, '\r', '\n')
}

// NullBulk is the RESP2 null bulk string.
var NullBulk = []byte("$-1\r\n")

// Int encodes an integer reply.
func Int(n int64) []byte { return []byte(":" + strconv.FormatInt(n, 10) + "\r\n") }

// Array encodes an array of already encoded replies.
func Array(items ...[]byte) []byte {
	out := []byte("*" + strconv.Itoa(len(items)) + "\r\n")
	for _, it := range items {
		out = append(out, it...)
	}
	return out
}

// ---- strict RESP2 reply scanner -------------------------------------------------------------

// ErrNeedMore means the buffer holds a proper prefix of a reply.
var ErrNeedMore = errors.New("need more bytes")

// ScanReply returns the length of the first complete RESP2 reply in buf, ErrNeedMore if buf is a proper
// prefix of one, or a descriptive error if buf cannot be the beginning of a well-formed reply.
func ScanReply(buf []byte) (int, error) { return scanReply(buf, 0) }

func scanLine(buf []byte) (line []byte, n int, err error) {
	i := bytes.IndexByte(buf, '\n')
	if i < 0 {
		if len(buf) > 64*1024*1024 {
			return nil, 0, errors.New("line too long")
		}
		return nil, 0, ErrNeedMore
	}
	if i < 1 || buf[i-1] != '\r' {
		return nil, 0, fmt.Errorf("line not terminated by CRLF: %q", trunc(buf[:i+1]))
	}
	return buf[:i-1], i + 1, nil
}

func canonInt(p []byte) (int64, bool) {
	if len(p) == 0 || len(p) > 19 {
		return 0, false
	}
	neg := false
	q := p
	if q[0] == '-' {
		neg = true
		q = q[1:]
		if len(q) == 0 {
			return 0, false
		}
	}
	if len(q) > 1 && q[0] == '0' {
		return 0, false
	}
	var n int64
	for _, c := range q {
		if c < '0' || c > '9' {
			return 0, false
		}
		n = n*10 + int64(c-'0')
	}
	if neg {
		if n == 0 {
			return 0, false
		}
		n = -n
	}
	return n, true
}

func scanReply(buf []byte, depth int) (int, error) {
	if len(buf) == 0 {
		return 0, ErrNeedMore
	}
	if depth > 64 {
		return 0, errors.New("reply nested too deep")
	}
	switch buf[0] {
	case '+', '-':
		line, n, err := scanLine(buf)
		if err != nil {
			return 0, err
		}
		if bytes.IndexByte(line, '\r') >= 0 {
			return 0, fmt.Errorf("CR inside a status line: %q", trunc(line))
		}
		return n, nil
	case ':':
		line, n, err := scanLine(buf)
		if err != nil {
			return 0, err
		}
		if _, ok := canonInt(line[1:]); !ok {
			return 0, fmt.Errorf("bad integer reply %q", trunc(line))
		}
		return n, nil
	case '$':
		line, n, err := scanLine(buf)
		if err != nil {
			return 0, err
		}
		l, ok := canonInt(line[1:])
		if !ok || l < -1 {
			return 0, fmt.Errorf("bad bulk length %q", trunc(line))
		}
		if l == -1 {
			return n, nil
		}
		if int64(len(buf)-n) < l+2 {
			// check what we have of the trailer
			if int64(len(buf)-n) > l && buf[n+int(l)] != '\r' {
				return 0, errors.New("bulk not followed by CRLF")
			}
			return 0, ErrNeedMore
		}
		if buf[n+int(l)] != '\r' || buf[n+int(l)+1] != '\n' {
			return 0, errors.New("bulk not followed by CRLF")
		}
		return n + int(l) + 2, nil
	case '*':
		line, n, err := scanLine(buf)
		if err != nil {
			return 0, err
		}
		c, ok := canonInt(line[1:])
		if !ok || c < -1 {
			return 0, fmt.Errorf("bad array count %q", trunc(line))
		}
		if c == -1 {
			return n, nil
		}
		pos := n
		for i := int64(0); i < c; i++ {
			m, err := scanReply(buf[pos:], depth+1)
			if err != nil {
				return 0, err
			}
			pos += m
		}
		return pos, nil
	}
	return 0, fmt.Errorf("bad reply type byte %q", buf[0])
}

func trunc(b []byte) []byte {
	if len(b) > 80 {
		return b[:80]
	}
	return b
}

// ---- Redis request grammar (what a Redis server accepts on the wire) --------------------------

// ReqStatus is the verdict of the request recogniser.
type ReqStatus int

const (
	ReqComplete   ReqStatus = iota // a complete multibulk request of N bytes
	ReqNeedMore                    // a proper prefix of a valid request
	ReqProtoError                  // Redis would answer "Protocol error" and close
	ReqInline                      // an inline command (not starting with '*'); complete line of N bytes
	ReqEmpty                       // "*0" or a negative count: Redis silently skips these N bytes
)

const (
	maxMultibulk = 1024 * 1024
	maxBulk      = 512 * 1024 * 1024
)

// strictLen parses the decimal after '*' or '$' the way this reference accepts it: canonical, no sign,
// no blanks. (Redis itself uses string2ll, which also rejects leading zeros, blanks and '+'.)
func strictLen(p []byte) (int64, bool) {
	if len(p) == 0 || len(p) > 10 {
		return 0, false
	}
	if len(p) > 1 && p[0] == '0' {
		return 0, false
	}
	var n int64
	for _, c := range p {
		if c < '0' || c > '9' {
			return 0, false
		}
		n = n*10 + int64(c-'0')
	}
	return n, true
}

// ScanRequest recognises the first request in buf. For ReqComplete args holds the arguments and n the
// encoded length. why describes a protocol error.
func ScanRequest(buf []byte) (st ReqStatus, n int, args [][]byte, why string) {
	if len(buf) == 0 {
		return ReqNeedMore, 0, nil, ""
	}
	if buf[0] != '*' {
		i := bytes.IndexByte(buf, '\n')
		if i < 0 {
			// Redis gives up on a line that is still unterminated after 64 KB; the property names no such
			// bound, and an unterminated line is indistinguishable from a truncated message, so it is "incomplete"
			return ReqNeedMore, 0, nil, ""
		}
		return ReqInline, i + 1, nil, ""
	}
	i := bytes.IndexByte(buf, '\n')
	if i < 0 {
		// like Redis, judge a header line only once it is terminated
		return ReqNeedMore, 0, nil, ""
	}
	if i < 2 || buf[i-1] != '\r' {
		return ReqProtoError, 0, nil, "multibulk header not terminated by CRLF"
	}
	hdr := buf[1 : i-1]
	if len(hdr) > 1 && hdr[0] == '-' {
		if v, ok := strictLen(hdr[1:]); ok && v > 0 {
			return ReqEmpty, i + 1, nil, "negative multibulk count"
		}
		return ReqProtoError, 0, nil, "invalid multibulk length"
	}
	cnt, ok := strictLen(hdr)
	if !ok || cnt > maxMultibulk {
		return ReqProtoError, 0, nil, "invalid multibulk length"
	}
	if cnt == 0 {
		// Redis treats *0 as an empty request and ignores it
		return ReqEmpty, i + 1, nil, "empty multibulk"
	}
	pos := i + 1
	for k := int64(0); k < cnt; k++ {
		if pos >= len(buf) {
			return ReqNeedMore, 0, nil, ""
		}
		j := bytes.IndexByte(buf[pos:], '\n')
		if j < 0 {
			return ReqNeedMore, 0, nil, ""
		}
		if buf[pos] != '$' {
			return ReqProtoError, 0, nil, fmt.Sprintf("expected '$', got %q", buf[pos])
		}
		if j < 2 || buf[pos+j-1] != '\r' {
			return ReqProtoError, 0, nil, "bulk header not terminated by CRLF"
		}
		l, ok := strictLen(buf[pos+1 : pos+j-1])
		if !ok || l > maxBulk {
			return ReqProtoError, 0, nil, "invalid bulk length"
		}
		start := pos + j + 1
		end := start + int(l)
		if end+2 > len(buf) {
			return ReqNeedMore, 0, nil, ""
		}
		if buf[end] != '\r' || buf[end+1] != '\n' {
			return ReqProtoError, 0, nil, "bulk not followed by CRLF"
		}
		args = append(args, buf[start:end])
		pos = end + 2
	}
	return ReqComplete, pos, args, ""
}

// ScanStream classifies a whole client byte stream: it returns the complete requests it starts with and
// what the remainder is (ReqComplete = nothing left, ReqNeedMore = proper prefix of a valid request,
// ReqProtoError = the stream stops being valid at offset off, ReqInline = an inline command at off).
func ScanStream(buf []byte) (reqs [][][]byte, rest ReqStatus, off int, why string) {
	for off < len(buf) {
		st, n, args, w := ScanRequest(buf[off:])
		switch st {
		case ReqComplete:
			reqs = append(reqs, args)
			off += n
		default:
			return reqs, st, off, w
		}
	}
	return reqs, ReqComplete, off, ""
}
