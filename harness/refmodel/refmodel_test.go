package refmodel

import "testing"

func TestKeySlotVectors(t *testing.T) {
	for k, want := range map[string]int{
		"123456789": 12739, "": 0, "foo": 12182, "{user1000}.following": KeySlotS("user1000"),
		"foo{}{bar}": KeySlotS("foo{}{bar}"), "foo{{bar}}zap": KeySlotS("{bar"), "foo{bar}{zap}": KeySlotS("bar"),
		"a}b{c}": KeySlotS("c"), "{}x": KeySlotS("{}x"), "x{": KeySlotS("x{"),
	} {
		if got := KeySlotS(k); got != want {
			t.Fatalf("KeySlot(%q)=%d want %d", k, got, want)
		}
	}
	for s := 0; s < 16384; s += 97 {
		if KeySlotS(KeyInSlot(s, "tok")) != s {
			t.Fatalf("KeyInSlot(%d) wrong", s)
		}
	}
}

func TestScanRequest(t *testing.T) {
	type tc struct {
		in string
		st ReqStatus
	}
	for _, c := range []tc{
		{"*1\r\n$4\r\nPING\r\n", ReqComplete}, {"*2\r\n$3\r\nget\r\n$0\r\n\r\n", ReqComplete},
		{"*1\r\n$4\r\nPIN", ReqNeedMore}, {"*1\r", ReqNeedMore}, {"*", ReqNeedMore}, {"*1\r\n$4\r\nPING\r", ReqNeedMore},
		{"*1\r\n$", ReqNeedMore}, {"*12", ReqNeedMore},
		{"*0\r\n", ReqEmpty}, {"*-1\r\n", ReqEmpty},
		{"*01\r\n$4\r\nPING\r\n", ReqProtoError}, {"*1\r\n$04\r\nPING\r\n", ReqProtoError}, {"*2\r\n$3\r\nget\r\n$-1\r\n", ReqProtoError},
		{"*1\n$4\r\nPING\r\n", ReqProtoError}, {"*1\r\n$4\r\nPINGxx", ReqProtoError}, {"*1\r\n$4\r\nPINGx", ReqNeedMore}, {"*1\r\n:4\r\n", ReqProtoError}, {"*1\r\n:4", ReqNeedMore},
		{"*+1\r\n", ReqProtoError}, {"* 1\r\n", ReqProtoError}, {"*99999999999999999999\r\n", ReqProtoError}, {"*x", ReqNeedMore}, {"*x\r\n", ReqProtoError}, {"*1\r\n$x", ReqNeedMore}, {"*1\r\n$x\r\n", ReqProtoError},
		{"PING\r\n", ReqInline}, {"\r\n", ReqInline},
	} {
		st, _, _, why := ScanRequest([]byte(c.in))
		if st != c.st {
			t.Fatalf("ScanRequest(%q)=%v (%s) want %v", c.in, st, why, c.st)
		}
	}
}

func TestScanReply(t *testing.T) {
	for in, want := range map[string]int{
		"+OK\r\n": 5, "-ERR x\r\n": 8, ":12\r\n": 5, "$-1\r\n": 5, "$3\r\nabc\r\n": 9, "*-1\r\n": 5, "*0\r\n": 4,
		"*2\r\n$1\r\na\r\n*1\r\n:1\r\n": 19, "$0\r\n\r\n": 6,
	} {
		n, err := ScanReply([]byte(in))
		if err != nil || n != want {
			t.Fatalf("ScanReply(%q)=%d,%v want %d", in, n, err, want)
		}
		for i := 0; i < len(in); i++ {
			if _, err := ScanReply([]byte(in[:i])); err != ErrNeedMore {
				t.Fatalf("ScanReply(%q) prefix: %v", in[:i], err)
			}
		}
	}
	for _, in := range []string{"x", ":a\r\n", "$3\r\nabcd\r\n", "$-2\r\n", "+a\n", "*1\r\n?"} {
		if _, err := ScanReply([]byte(in)); err == nil || err == ErrNeedMore {
			t.Fatalf("ScanReply(%q) accepted: %v", in, err)
		}
	}
}

func TestDocs(t *testing.T) {
	d, err := LoadDocs()
	if err != nil {
		t.Fatal(err)
	}
	for n := range d.Supported {
		if _, ok := ArityOf(n); !ok {
			t.Errorf("supported command %s has no arity in the golden table", n)
		}
	}
	t.Logf("%d supported, %d unsupported", len(d.Supported), len(d.Unsupported))
}
