package refmodel

import (
	"bufio"
	"fmt"
	"os"
	"sort"
	"strings"
)

// Arity classes of the proxy's documented command table. N counts the arguments after the command
// name (so the key is argument 1).
type Arity int

const (
	Exactly0     Arity = iota // no argument at all (PING, QUIT)
	Exactly1                  // key
	Exactly2                  // key + 1
	Exactly3                  // key + 2
	Exactly4                  // key + 3
	AtLeast1                  // key + anything
	EvenAtLeast2              // key value [key value ...]
	EvalLike                  // script numkeys key ... : at least 3
)

// golden arity table: transcribed once from the pinned command table, per command name.
var arityTable = map[string]Arity{}

func reg(a Arity, names string) {
	for _, n := range strings.Fields(names) {
		arityTable[n] = a
	}
}

func init() {
	reg(Exactly0, "ping quit")
	reg(Exactly1, "exists ttl pttl type dump get strlen hgetall hkeys hlen smembers zcard llen scard hvals pfcount spop auth rpop persist decr incr lpop")
	reg(Exactly2, "rpoplpush rpushx getbit hexists hget lindex sismember expire zrank zrevrank zscore expireat pexpire pexpireat append decrby getset incrby incrbyfloat setnx lpushx")
	reg(Exactly3, "getrange lrange zcount zlexcount psetex restore setbit setex setrange hincrby hincrbyfloat hset hsetnx lrem lset ltrim smove zincrby zremrangebyrank zremrangebylex zremrangebyscore")
	reg(Exactly4, "linsert")
	reg(AtLeast1, "set hmset lpush sunion hdel pfmerge rpush pfadd sadd sdiffstore sinterstore srem sunionstore zadd zinterstore zrem bitcount zunionstore mget hmget hscan srandmember sscan sdiff sinter zrange zrangebylex zrangebyscore zrevrange zrevrangebyscore zscan del sort")
	reg(EvenAtLeast2, "mset")
	reg(EvalLike, "eval evalsha")
}

// ArityOK says whether nargs arguments (after the name) satisfy the arity rule of command name (lower case).
func ArityOK(name string, nargs int) bool {
	a, ok := arityTable[name]
	if !ok {
		return false
	}
	switch a {
	case Exactly0, Exactly1, Exactly2, Exactly3, Exactly4:
		return nargs == int(a)
	case AtLeast1:
		return nargs >= 1
	case EvenAtLeast2:
		return nargs >= 2 && nargs%2 == 0
	case EvalLike:
		return nargs >= 3
	}
	return false
}

// ArityOf returns the arity class of a supported command.
func ArityOf(name string) (Arity, bool) { a, ok := arityTable[name]; return a, ok }

// ValidNargs returns an argument count satisfying the arity of name; extra adds optional arguments where allowed.
func ValidNargs(name string, extra int) int {
	switch arityTable[name] {
	case Exactly0:
		return 0
	case Exactly1:
		return 1
	case Exactly2:
		return 2
	case Exactly3:
		return 3
	case Exactly4:
		return 4
	case AtLeast1:
		return 1 + extra
	case EvenAtLeast2:
		return 2 + 2*extra
	case EvalLike:
		return 3 + extra
	}
	return 1
}

// masterOnly: commands that must be served by the master of the slot: everything that writes
// (per the Redis command reference), the cursor scans and scripts.
var masterOnly = map[string]bool{}

func init() {
	for _, n := range strings.Fields(`del expire expireat pexpire pexpireat persist sort append decr decrby getset incr incrby
		incrbyfloat mset psetex restore set setbit setex setnx setrange hdel hincrby hincrbyfloat hmset hset hsetnx
		linsert lpop lpush lpushx lrem lset ltrim rpop rpoplpush rpush rpushx pfadd pfmerge sadd sdiffstore sinterstore
		smove spop srem sunionstore zadd zincrby zinterstore zrem zremrangebyrank zremrangebylex zremrangebyscore
		zunionstore eval evalsha hscan sscan zscan`) {
		masterOnly[n] = true
	}
}

// MasterOnly reports whether the command (lower case) must go to the master.
func MasterOnly(name string) bool { return masterOnly[name] }

// Local commands are answered by the proxy itself.
func Local(name string) bool { return name == "ping" || name == "quit" || name == "auth" }

// MultiKey commands are split by slot.
func MultiKey(name string) bool { return name == "mget" || name == "del" || name == "mset" }

// Docs is the documented command table.
type Docs struct {
	Supported   map[string]bool // rows with "Yes" (lower case), plus auth
	Unsupported []string        // names that only have "No" rows (lower case)
}

// RepoDir is where the repository under test lives.
func RepoDir() string {
	if d := os.Getenv("VERIF_REPO"); d != "" {
		return d
	}
	return "/repo"
}

// LoadDocs parses docs/command.md of the repository under test.
func LoadDocs() (*Docs, error) {
	f, err := os.Open(RepoDir() + "/docs/command.md")
	if err != nil {
		return nil, err
	}
	defer f.Close()
	d := &Docs{Supported: map[string]bool{}}
	no := map[string]bool{}
	sc := bufio.NewScanner(f)
	for sc.Scan() {
		cols := strings.Split(sc.Text(), "|")
		if len(cols) < 4 {
			continue
		}
		name := strings.ToLower(strings.TrimSpace(cols[1]))
		sup := strings.ToLower(strings.TrimSpace(cols[2]))
		if name == "" || strings.ContainsAny(name, " :-") || name == "command" {
			continue
		}
		switch sup {
		case "yes":
			d.Supported[name] = true
		case "no":
			no[name] = true
		}
	}
	if err := sc.Err(); err != nil {
		return nil, err
	}
	// the property statement names AUTH as answered by the proxy itself
	d.Supported["auth"] = true
	for n := range no {
		if !d.Supported[n] {
			d.Unsupported = append(d.Unsupported, n)
		}
	}
	sort.Strings(d.Unsupported)
	if len(d.Supported) < 50 {
		return nil, fmt.Errorf("docs/command.md: only %d supported commands parsed", len(d.Supported))
	}
	return d, nil
}

// SupportedNames returns the sorted supported names.
func (d *Docs) SupportedNames() []string {
	var out []string
	for n := range d.Supported {
		out = append(out, n)
	}
	sort.Strings(out)
	return out
}

// SingleKeyNames returns supported commands that are forwarded unsplit (sorted).
func (d *Docs) SingleKeyNames() []string {
	var out []string
	for n := range d.Supported {
		if Local(n) || MultiKey(n) {
			continue
		}
		out = append(out, n)
	}
	sort.Strings(out)
	return out
}

// Verdict of the reference for one request.
type Verdict int

const (
	Served      Verdict = iota // forwarded or locally answered
	RejUnknown                 // not in the supported set
	RejArity                   // arity rule violated
	RejTooLarge                // own encoded size above the limit
)

// Classify is the reference for property C17: which of the conditions a request violates.
// It returns all violated conditions (empty = served).
func (d *Docs) Classify(name string, nargs int, size int, limit int) []Verdict {
	var v []Verdict
	ln := ASCIILower(name)
	if !d.Supported[ln] {
		v = append(v, RejUnknown)
	} else if !ArityOK(ln, nargs) {
		v = append(v, RejArity)
	}
	if limit > 0 && size > limit {
		v = append(v, RejTooLarge)
	}
	return v
}

// ASCIILower lower-cases A-Z only (Redis compares command names with strcasecmp).
func ASCIILower(s string) string {
	b := []byte(s)
	for i, c := range b {
		if c >= 'A' && c <= 'Z' {
			b[i] = c + 32
		}
	}
	return string(b)
}
