// Package refmodel holds the reference models the oracles compare the proxy with.
// Nothing here imports or shares code with rcproxy.
package refmodel

import "sync"

// crc16 is CRC16/XMODEM (poly 0x1021, init 0, no reflection) computed bit by bit.
func crc16(b []byte) uint16 {
	var crc uint16
	for _, c := range b {
		crc ^= uint16(c) << 8
		for i := 0; i < 8; i++ {
			if crc&0x8000 != 0 {
				crc = crc<<1 ^ 0x1021
			} else {
				crc <<= 1
			}
		}
	}
	return crc
}

// KeySlot is the Redis Cluster specification's key slot: CRC16 of the key, or of the substring
// between the first '{' and the first '}' after it when that substring is non-empty, mod 16384.
func KeySlot(key []byte) int {
	s := -1
	for i, c := range key {
		if c == '{' {
			s = i
			break
		}
	}
	if s >= 0 {
		e := -1
		for i := s + 1; i < len(key); i++ {
			if key[i] == '}' {
				e = i
				break
			}
		}
		if e > s+1 {
			return int(crc16(key[s+1:e]) % 16384)
		}
	}
	return int(crc16(key) % 16384)
}

// KeySlotS is KeySlot for strings.
func KeySlotS(key string) int { return KeySlot([]byte(key)) }

var slotTags [16384]string

func init() {
	// a short hash tag for every slot, so tests can force a key into any slot
	found := 0
	for i := 0; found < 16384; i++ {
		t := itoa36(i)
		s := int(crc16([]byte(t)) % 16384)
		if slotTags[s] == "" {
			slotTags[s] = t
			found++
		}
	}
}

func itoa36(i int) string {
	const d = "0123456789abcdefghijklmnopqrstuvwxyz"
	if i == 0 {
		return "0"
	}
	var b []byte
	for i > 0 {
		b = append([]byte{d[i%36]}, b...)
		i /= 36
	}
	return string(b)
}

// TagForSlot returns a short string without braces whose CRC16 maps to slot.
func TagForSlot(slot int) string { return slotTags[slot] }

// KeyInSlot builds a key that the specification maps to slot and that contains token.
func KeyInSlot(slot int, token string) string {
	return "{" + slotTags[slot] + "}" + token
}

var (
	wideTagsOnce sync.Once
	wideTags     [16384]string
)

// WideTagForSlot returns a tag for slot that contains bytes >= 0x80 (UTF-8 text), without braces.
func WideTagForSlot(slot int) string {
	wideTagsOnce.Do(func() {
		found := 0
		for i := 0; found < 16384; i++ {
			t := "\u00fc" + itoa36(i) + "\u4e2d"
			s := int(crc16([]byte(t)) % 16384)
			if wideTags[s] == "" {
				wideTags[s] = t
				found++
			}
		}
	})
	return wideTags[slot]
}
