// rcproxy-smallbuf mirrors /repo/main.go (without the web server) but lets the harness shrink the
// event loop's read buffer / static write buffer (exported core.MaxStreamBufferCap) and the socket
// buffers through environment variables, so that every request is cut at every multiple of the buffer
// size and partial writes happen on small data. It only uses exported, non-internal API of rcproxy.
package main

import (
	"flag"
	"fmt"
	"os"
	"path"
	"strconv"

	"rcproxy/config"
	"rcproxy/core"
	"rcproxy/core/authip"
	"rcproxy/core/pkg/logging"
	"rcproxy/core/server"
)

func envInt(k string) int {
	n, _ := strconv.Atoi(os.Getenv(k))
	return n
}

func main() {
	configPath := flag.String("p", "conf", "Config file path")
	flag.Parse()

	cfg, err := config.LoadConfig(path.Join(*configPath, "rc.yaml"))
	if err != nil {
		fmt.Fprintf(os.Stderr, "parse config file err:%v\n", err)
		os.Exit(1)
	}
	if err = logging.InitializeLogger(
		logging.WithPath(cfg.LogPath),
		logging.WithExpireDay(cfg.LogExpireDay),
		logging.WithLogLevel(cfg.LogLevel),
	); err != nil {
		fmt.Fprintf(os.Stderr, "failed to initialize logger, err: %s\n", err)
		os.Exit(1)
	}
	if err := authip.LoopIPWhiteList(*configPath, "authip.yaml"); err != nil {
		fmt.Fprintf(os.Stderr, "failed to loop IP white list, err: %s\n", err)
		os.Exit(1)
	}

	if n := envInt("VERIF_BUFCAP"); n > 0 {
		core.MaxStreamBufferCap = n
	}
	opts := []core.Option{
		core.WithRedisPasswd(cfg.Redis.Password),
		core.WithRedisServers(cfg.Redis.Servers),
		core.WithRedisPreconnect(cfg.Redis.Preconnect),
		core.WithRedisConnectTimeout(cfg.Redis.ConnTimeout),
		core.WithRedisRequestTimeout(cfg.Redis.Timeout),
		core.WithRedisServerConnections(cfg.Redis.ServerConnections),
		core.WithRedisMsgMaxLength(cfg.Redis.MsgMaxLengthLimit),
		core.WithSlowlogSlowerThan(cfg.Redis.SlowlogSlowerThan),
	}
	if n := envInt("VERIF_SNDBUF"); n > 0 {
		opts = append(opts, core.WithSocketSendBuffer(n))
	}
	if n := envInt("VERIF_RCVBUF"); n > 0 {
		opts = append(opts, core.WithSocketRecvBuffer(n))
	}

	tcpServer := server.NewListenServer(
		server.WithRedisPassword(cfg.Redis.Password),
		server.WithServerRetryTimeout(cfg.Redis.ServerRetryTimeout),
		server.WithDisableRedisSlave(cfg.Redis.DisableSlave),
	)
	if err = core.Run(tcpServer, fmt.Sprintf("tcp://:%d", cfg.Port), opts...); err != nil {
		fmt.Fprintf(os.Stderr, "rcproxy run failed: %s\n", err)
		os.Exit(1)
	}
}
