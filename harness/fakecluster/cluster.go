// Package fakecluster is a controllable stand-in for a Redis Cluster: TCP nodes with a strict request
// parser, a per-connection command log, scripted/gated replies and a rendered CLUSTER NODES / INFO.
package fakecluster

import (
	"bytes"
	"fmt"
	"net"
	"strconv"
	"strings"
	"sync"
	"sync/atomic"
	"syscall"
	"time"

	"verifharness/refmodel"
)

// Request is one data command received by a node.
type Request struct {
	Seq      int64 // global arrival order over all nodes
	Node     int   // node index
	Conn     int64 // connection id
	Raw      []byte
	Args     [][]byte
	Name     string // command name, ASCII lower case
	Time     time.Time
	Asking   bool // ASKING was the command right before this one on the connection
	ReadOnly bool // the connection is in READONLY mode
	Authed   bool // the connection has authenticated
	NthData  int  // index among the data commands of its connection (0 = first)

	mu        sync.Mutex
	repliedAt time.Time
	written   bool
}

// RepliedAt returns when the reply was fully written (zero if not yet).
func (r *Request) RepliedAt() time.Time {
	r.mu.Lock()
	defer r.mu.Unlock()
	return r.repliedAt
}

// Key returns argument i (1 = first key) as a string, "" if absent.
func (r *Request) Key(i int) string {
	if i < len(r.Args) {
		return string(r.Args[i])
	}
	return ""
}

// Action is what a node does with a data command.
type Action struct {
	Reply       []byte          // bytes to write
	Gate        <-chan struct{} // if set, wait for it before writing (later replies of the connection wait behind it)
	Delay       time.Duration   // wait before writing
	CloseBefore bool            // close the connection instead of replying
	Partial     int             // >0: write only this many bytes of Reply, then close
	RST         bool            // close with RST (SO_LINGER 0) when closing
	CloseAfter  bool            // close after writing the reply
	SplitAt     int             // >0: write the first SplitAt bytes, pause 3 ms, then the rest (the reply arrives in two reads)
	WithNext    bool            // do not write yet: the bytes go out in one write with the next reply (or alone after 30 ms)
}

// Handler decides the reply of a data command. It runs on the connection's reader goroutine, in arrival order.
type Handler func(req *Request) Action

// ConnInfo describes one accepted connection.
type ConnInfo struct {
	ID       int64
	Node     int
	Opened   time.Time
	Events   []string // command names in arrival order, control commands included (auth, readonly, asking, ping, info, cluster)
	Data     int      // number of data commands
	Closed   bool
	ProtoErr string // set if the strict parser rejected something on this connection
}

// ProtoError records bytes that a Redis server would not accept.
type ProtoError struct {
	Node int
	Conn int64
	Why  string
	Head []byte
	Kind refmodel.ReqStatus
}

// Cluster is a set of fake nodes sharing one scripted behaviour.
type Cluster struct {
	Nodes []*Node

	mu         sync.Mutex
	handler    Handler
	password   string
	topoText   func(node int) []byte // full RESP reply to CLUSTER NODES as seen by node
	info       map[int]string        // INFO body per node
	log        []*Request
	conns      map[int64]*ConnInfo
	protoErrs  []ProtoError
	seq        int64
	connSeq    int64
	closed     bool
	live       map[int64]*nodeConn
	acceptCl   map[int]bool           // nodes that close every connection right after accepting it
	recvBuf    int                    // SO_RCVBUF for connections accepted from now on (0 = system default)
	pauseTill  time.Time              // readers do not read before this moment (a node too busy to read)
	hsCoalesce bool                   // AUTH's / READONLY's +OK go out in one write with the following reply
	roGap      time.Duration          // the +OK of READONLY is sent this long after it arrived (handshake acknowledgements in separate segments)
	probeGate  func() <-chan struct{} // when set, every CLUSTER NODES reply (rendered at arrival) waits for the returned gate
}

// Node is one listening fake Redis node.
type Node struct {
	Index int
	ID    string // 40 hex chars
	Addr  string // 127.0.0.1:port
	Port  int
	ln    net.Listener
	c     *Cluster
	down  bool
	// reserve is a bound, non-listening socket that keeps the port while the node is down (-1 = none)
	reserve int
}

// New starts n nodes on OS-assigned loopback ports.
func New(n int) (*Cluster, error) {
	c := &Cluster{conns: map[int64]*ConnInfo{}, info: map[int]string{}, live: map[int64]*nodeConn{}}
	for i := 0; i < n; i++ {
		ln, err := net.Listen("tcp4", "127.0.0.1:0")
		if err != nil {
			c.Close()
			return nil, err
		}
		nd := &Node{Index: i, ID: fmt.Sprintf("%040x", 0xabc000+i), Addr: ln.Addr().String(), Port: ln.Addr().(*net.TCPAddr).Port, ln: ln, c: c, reserve: -1}
		c.Nodes = append(c.Nodes, nd)
		go nd.acceptLoop()
	}
	c.handler = EchoHandler
	return c, nil
}

// Close stops all nodes.
func (c *Cluster) Close() {
	c.mu.Lock()
	c.closed = true
	live := c.live
	c.live = map[int64]*nodeConn{}
	c.mu.Unlock()
	for _, n := range c.Nodes {
		c.mu.Lock()
		ln := n.ln
		c.mu.Unlock()
		ln.Close()
		if n.reserve >= 0 {
			syscall.Close(n.reserve)
			n.reserve = -1
		}
	}
	for _, nc := range live {
		nc.close(false)
	}
}

// SetHandler installs the data-command handler (nil = EchoHandler).
func (c *Cluster) SetHandler(h Handler) {
	if h == nil {
		h = EchoHandler
	}
	c.mu.Lock()
	c.handler = h
	c.mu.Unlock()
}

// SetDown makes node stop listening (connection attempts are refused) and drops its connections; SetDown(node,
// false) listens on the same port again. It returns an error if the port cannot be re-acquired.
func (c *Cluster) SetDown(node int, down bool) error {
	n := c.Nodes[node]
	if down {
		c.mu.Lock()
		n.down = true
		c.mu.Unlock()
		n.ln.Close()
		// keep the port: a socket that is bound but does not listen refuses connections just like a free port,
		// and nobody else (another fake node of a parallel case) can take the address meanwhile
		n.reserve = reservePort(n.Addr)
		c.CloseDataConns(node, true)
		return nil
	}
	if n.reserve >= 0 {
		syscall.Close(n.reserve)
		n.reserve = -1
	}
	var ln net.Listener
	var err error
	for i := 0; i < 300; i++ { // the port may be in TIME_WAIT / briefly taken: keep trying for six seconds
		ln, err = net.Listen("tcp4", n.Addr)
		if err == nil {
			break
		}
		time.Sleep(20 * time.Millisecond)
	}
	if err != nil {
		return err
	}
	c.mu.Lock()
	n.ln = ln
	n.down = false
	c.mu.Unlock()
	go n.acceptLoop()
	return nil
}

// reservePort binds addr without listening; it returns the descriptor or -1.
func reservePort(addr string) int {
	host, portStr, err := net.SplitHostPort(addr)
	if err != nil {
		return -1
	}
	ip := net.ParseIP(host).To4()
	port, _ := strconv.Atoi(portStr)
	if ip == nil || port == 0 {
		return -1
	}
	fd, err := syscall.Socket(syscall.AF_INET, syscall.SOCK_STREAM, 0)
	if err != nil {
		return -1
	}
	syscall.SetsockoptInt(fd, syscall.SOL_SOCKET, syscall.SO_REUSEADDR, 1)
	sa := &syscall.SockaddrInet4{Port: port}
	copy(sa.Addr[:], ip)
	for i := 0; i < 50; i++ {
		if err = syscall.Bind(fd, sa); err == nil {
			return fd
		}
		time.Sleep(2 * time.Millisecond)
	}
	syscall.Close(fd)
	return -1
}

// SetAcceptClose makes node close every new connection right after accepting it (on = false restores it).
func (c *Cluster) SetAcceptClose(node int, on bool) {
	c.mu.Lock()
	if c.acceptCl == nil {
		c.acceptCl = map[int]bool{}
	}
	c.acceptCl[node] = on
	c.mu.Unlock()
}

// SetRecvBuf sets SO_RCVBUF of connections accepted from now on (small values make the peer's writes partial).
func (c *Cluster) SetRecvBuf(n int) { c.mu.Lock(); c.recvBuf = n; c.mu.Unlock() }

// PauseReads makes every node stop reading from its connections for d (requests pile up in the socket buffers).
func (c *Cluster) PauseReads(d time.Duration) {
	c.mu.Lock()
	c.pauseTill = time.Now().Add(d)
	c.mu.Unlock()
}

func (c *Cluster) pauseLeft() time.Duration {
	c.mu.Lock()
	defer c.mu.Unlock()
	return time.Until(c.pauseTill)
}

// SetHandshakeGap delays the acknowledgement of READONLY, so that AUTH's and READONLY's +OK reach the proxy apart.
func (c *Cluster) SetHandshakeGap(d time.Duration) { c.mu.Lock(); c.roGap = d; c.mu.Unlock() }

// SetHandshakeCoalesce makes the nodes send the +OK of AUTH and READONLY in one write with the reply to the
// command that follows (as a busy server answering a pipelined handshake would).
func (c *Cluster) SetHandshakeCoalesce(on bool) { c.mu.Lock(); c.hsCoalesce = on; c.mu.Unlock() }

// SetProbeGate makes every reply to CLUSTER NODES wait for a gate obtained from f at the moment the probe
// arrives (the reply text is rendered at that moment too); nil switches it off.
func (c *Cluster) SetProbeGate(f func() <-chan struct{}) { c.mu.Lock(); c.probeGate = f; c.mu.Unlock() }

// SetPassword makes the nodes require AUTH with this password ("" = none).
func (c *Cluster) SetPassword(p string) { c.mu.Lock(); c.password = p; c.mu.Unlock() }

// SetTopology installs the function rendering the full RESP reply to CLUSTER NODES for a node.
func (c *Cluster) SetTopology(f func(node int) []byte) { c.mu.Lock(); c.topoText = f; c.mu.Unlock() }

// SetInfo sets what INFO reports on a node.
func (c *Cluster) SetInfo(node int, loading bool, masterLinkUp bool, isSlave bool) {
	var b strings.Builder
	if node%2 == 1 {
		// every second node answers in the style of Redis 7: more fields, among them async_loading
		b.WriteString("# Server\r\nredis_version:7.0.11\r\nredis_mode:cluster\r\n# Persistence\r\nasync_loading:0\r\ncurrent_cow_peak:0\r\nloading:")
	} else {
		b.WriteString("# Server\r\nredis_version:3.0.7\r\n# Persistence\r\nloading:")
	}
	if loading {
		b.WriteString("1")
	} else {
		b.WriteString("0")
	}
	b.WriteString("\r\n# Replication\r\n")
	if isSlave {
		b.WriteString("role:slave\r\nmaster_link_status:")
		if masterLinkUp {
			b.WriteString("up")
		} else {
			b.WriteString("down")
		}
		b.WriteString("\r\n")
	} else {
		b.WriteString("role:master\r\n")
	}
	c.mu.Lock()
	c.info[node] = b.String()
	c.mu.Unlock()
}

// ResetLog forgets logged requests, protocol errors and closed connections.
func (c *Cluster) ResetLog() {
	c.mu.Lock()
	c.log = nil
	c.protoErrs = nil
	for id, ci := range c.conns {
		if ci.Closed {
			delete(c.conns, id)
		}
	}
	c.mu.Unlock()
}

// Log returns a snapshot of the data commands received so far, in arrival order.
func (c *Cluster) Log() []*Request {
	c.mu.Lock()
	defer c.mu.Unlock()
	return append([]*Request(nil), c.log...)
}

// LogLen returns the number of logged data commands.
func (c *Cluster) LogLen() int { c.mu.Lock(); defer c.mu.Unlock(); return len(c.log) }

// ProtoErrors returns what the strict parser rejected.
func (c *Cluster) ProtoErrors() []ProtoError {
	c.mu.Lock()
	defer c.mu.Unlock()
	return append([]ProtoError(nil), c.protoErrs...)
}

// Conns returns a snapshot of connection descriptions.
func (c *Cluster) Conns() []ConnInfo {
	c.mu.Lock()
	defer c.mu.Unlock()
	out := make([]ConnInfo, 0, len(c.conns))
	for _, ci := range c.conns {
		cp := *ci
		cp.Events = append([]string(nil), ci.Events...)
		out = append(out, cp)
	}
	return out
}

// ConnCount returns how many connections node has accepted in total (including probes).
func (c *Cluster) ConnCount(node int) int {
	c.mu.Lock()
	defer c.mu.Unlock()
	n := 0
	for _, ci := range c.conns {
		if ci.Node == node {
			n++
		}
	}
	return n
}

// CloseDataConns closes every live connection of node that has carried data commands or is not a probe
// (node < 0: all nodes). rst selects an abortive close.
func (c *Cluster) CloseDataConns(node int, rst bool) int {
	c.mu.Lock()
	var victims []*nodeConn
	for _, nc := range c.live {
		if node >= 0 && nc.node.Index != node {
			continue
		}
		victims = append(victims, nc)
	}
	c.mu.Unlock()
	for _, nc := range victims {
		nc.close(rst)
	}
	return len(victims)
}

// DeadAddr returns a loopback address on which nothing listens.
func DeadAddr() string {
	ln, err := net.Listen("tcp4", "127.0.0.1:0")
	if err != nil {
		return "127.0.0.1:1"
	}
	a := ln.Addr().String()
	ln.Close()
	return a
}

type outItem struct {
	req *Request
	act Action
}

type nodeConn struct {
	id     int64
	node   *Node
	nc     net.Conn
	qmu    sync.Mutex
	queue  []outItem
	qsig   chan struct{}
	closed int32
	done   chan struct{}
	authed bool
	ro     bool
	asking bool
	nData  int
}

func (nc *nodeConn) close(rst bool) {
	if !atomic.CompareAndSwapInt32(&nc.closed, 0, 1) {
		return
	}
	if rst {
		if tc, ok := nc.nc.(*net.TCPConn); ok {
			tc.SetLinger(0)
		}
	}
	nc.nc.Close()
	close(nc.done)
	c := nc.node.c
	c.mu.Lock()
	if ci := c.conns[nc.id]; ci != nil {
		ci.Closed = true
	}
	delete(c.live, nc.id)
	c.mu.Unlock()
}

func (n *Node) acceptLoop() {
	n.c.mu.Lock()
	ln := n.ln
	n.c.mu.Unlock()
	for {
		conn, err := ln.Accept()
		if err != nil {
			return
		}
		c := n.c
		c.mu.Lock()
		if c.closed {
			c.mu.Unlock()
			conn.Close()
			return
		}
		if c.acceptCl[n.Index] {
			c.connSeq++
			c.conns[c.connSeq] = &ConnInfo{ID: c.connSeq, Node: n.Index, Opened: time.Now(), Closed: true, Events: []string{"!closed-on-accept"}}
			c.mu.Unlock()
			conn.Close()
			continue
		}
		c.connSeq++
		nc := &nodeConn{id: c.connSeq, node: n, nc: conn, qsig: make(chan struct{}, 1), done: make(chan struct{})}
		c.conns[nc.id] = &ConnInfo{ID: nc.id, Node: n.Index, Opened: time.Now()}
		c.live[nc.id] = nc
		rb := c.recvBuf
		c.mu.Unlock()
		if tc, ok := conn.(*net.TCPConn); ok {
			tc.SetNoDelay(true)
			if rb > 0 {
				tc.SetReadBuffer(rb)
			}
		}
		go nc.writer()
		go nc.reader()
	}
}

func (nc *nodeConn) writer() {
	var pending []byte // handshake acknowledgements waiting to go out with the next reply
	for {
		nc.qmu.Lock()
		var it outItem
		have := len(nc.queue) > 0
		if have {
			it = nc.queue[0]
			nc.queue[0] = outItem{}
			nc.queue = nc.queue[1:]
			if len(nc.queue) == 0 {
				nc.queue = nil
			}
		}
		nc.qmu.Unlock()
		if !have {
			if len(pending) > 0 {
				select {
				case <-nc.done:
					return
				case <-nc.qsig:
				case <-time.After(30 * time.Millisecond):
					if _, err := nc.nc.Write(pending); err != nil {
						nc.close(false)
						return
					}
					pending = nil
				}
				continue
			}
			select {
			case <-nc.done:
				return
			case <-nc.qsig:
			}
			continue
		}
		if it.act.WithNext && it.act.Gate == nil && it.act.Delay == 0 {
			pending = append(pending, it.act.Reply...)
			continue
		}
		{
			if it.act.Gate != nil {
				select {
				case <-it.act.Gate:
				case <-nc.done:
					return
				}
			}
			if it.act.Delay > 0 {
				select {
				case <-time.After(it.act.Delay):
				case <-nc.done:
					return
				}
			}
			if it.act.CloseBefore {
				nc.close(it.act.RST)
				return
			}
			b := it.act.Reply
			if it.act.Partial > 0 && it.act.Partial < len(b) {
				b = b[:it.act.Partial]
			}
			if len(pending) > 0 {
				b = append(pending, b...)
				pending = nil
				if it.act.SplitAt > 0 {
					it.act.SplitAt = 0
				}
			}
			if it.act.SplitAt > 0 && it.act.SplitAt < len(b) && it.act.Partial == 0 {
				if _, err := nc.nc.Write(b[:it.act.SplitAt]); err != nil {
					nc.close(false)
					return
				}
				time.Sleep(3 * time.Millisecond)
				b = b[it.act.SplitAt:]
			}
			if len(b) > 0 {
				if _, err := nc.nc.Write(b); err != nil {
					nc.close(false)
					return
				}
			}
			if it.req != nil {
				it.req.mu.Lock()
				it.req.repliedAt = time.Now()
				it.req.written = true
				it.req.mu.Unlock()
			}
			if (it.act.Partial > 0 && it.act.Partial < len(it.act.Reply)) || it.act.CloseAfter {
				nc.close(it.act.RST)
				return
			}
		}
	}
}

func (nc *nodeConn) send(req *Request, a Action) {
	nc.qmu.Lock()
	nc.queue = append(nc.queue, outItem{req, a})
	nc.qmu.Unlock()
	select {
	case nc.qsig <- struct{}{}:
	default:
	}
}

func (nc *nodeConn) event(name string) {
	c := nc.node.c
	c.mu.Lock()
	if ci := c.conns[nc.id]; ci != nil && len(ci.Events) < 4096 {
		ci.Events = append(ci.Events, name)
	}
	c.mu.Unlock()
}

func (nc *nodeConn) protoErr(kind refmodel.ReqStatus, why string, head []byte) {
	c := nc.node.c
	if len(head) > 96 {
		head = head[:96]
	}
	c.mu.Lock()
	c.protoErrs = append(c.protoErrs, ProtoError{Node: nc.node.Index, Conn: nc.id, Why: why, Head: append([]byte(nil), head...), Kind: kind})
	if ci := c.conns[nc.id]; ci != nil {
		ci.ProtoErr = why
	}
	c.mu.Unlock()
}

func (nc *nodeConn) reader() {
	defer nc.close(false)
	var buf []byte
	tmp := make([]byte, 64*1024)
	for {
		if d := nc.node.c.pauseLeft(); d > 0 {
			time.Sleep(d)
		}
		n, err := nc.nc.Read(tmp)
		if d := nc.node.c.pauseLeft(); d > 0 && n > 0 {
			time.Sleep(d) // the pause began while this read was blocked: hold what was read until it is over
		}
		if n > 0 {
			buf = append(buf, tmp[:n]...)
			for len(buf) > 0 {
				st, m, args, why := refmodel.ScanRequest(buf)
				if st == refmodel.ReqNeedMore {
					break
				}
				switch st {
				case refmodel.ReqProtoError:
					nc.protoErr(st, why, buf)
					nc.send(nil, Action{Reply: []byte("-ERR Protocol error: " + why + "\r\n"), CloseAfter: true})
					// keep the connection until the writer closed it
					<-nc.done
					return
				case refmodel.ReqEmpty:
					// Redis skips it silently; remember it, it is never something a proxy should send
					nc.protoErr(st, why, buf[:m])
					buf = buf[m:]
					continue
				case refmodel.ReqInline:
					nc.protoErr(st, "inline command", buf[:m])
					line := strings.TrimSpace(string(buf[:m]))
					buf = buf[m:]
					if line == "" {
						continue
					}
					nc.send(nil, Action{Reply: []byte("-ERR unknown command (inline)\r\n")})
					continue
				}
				raw := append([]byte(nil), buf[:m]...)
				// args alias buf; re-slice them onto raw
				_, _, args, _ = refmodel.ScanRequest(raw)
				buf = buf[m:]
				nc.dispatch(raw, args)
			}
			if len(buf) == 0 {
				buf = nil
			}
		}
		if err != nil {
			return
		}
	}
}

func (nc *nodeConn) dispatch(raw []byte, args [][]byte) {
	c := nc.node.c
	name := refmodel.ASCIILower(string(args[0]))
	c.mu.Lock()
	pw := c.password
	c.mu.Unlock()

	wasAsking := nc.asking
	nc.asking = false

	switch name {
	case "auth":
		nc.event(name)
		switch {
		case pw == "":
			nc.send(nil, Action{Reply: []byte("-ERR Client sent AUTH, but no password is set\r\n")})
		case len(args) == 2 && string(args[1]) == pw:
			nc.authed = true
			c.mu.Lock()
			co := c.hsCoalesce
			c.mu.Unlock()
			nc.send(nil, Action{Reply: []byte("+OK\r\n"), WithNext: co})
		default:
			nc.send(nil, Action{Reply: []byte("-ERR invalid password\r\n")})
		}
		return
	}
	if pw != "" && !nc.authed {
		nc.event("!noauth:" + name)
		nc.send(nil, Action{Reply: []byte("-NOAUTH Authentication required.\r\n")})
		return
	}
	switch name {
	case "ping":
		nc.event(name)
		nc.send(nil, Action{Reply: []byte("+PONG\r\n")})
		return
	case "readonly":
		nc.event(name)
		nc.ro = true
		c.mu.Lock()
		gap := c.roGap
		co := c.hsCoalesce
		c.mu.Unlock()
		nc.send(nil, Action{Reply: []byte("+OK\r\n"), Delay: gap, WithNext: co && gap == 0})
		return
	case "readwrite":
		nc.event(name)
		nc.ro = false
		nc.send(nil, Action{Reply: []byte("+OK\r\n")})
		return
	case "asking":
		nc.event(name)
		nc.asking = true
		nc.send(nil, Action{Reply: []byte("+OK\r\n")})
		return
	case "info":
		nc.event(name)
		c.mu.Lock()
		body, ok := c.info[nc.node.Index]
		c.mu.Unlock()
		if !ok {
			body = "# Server\r\nredis_version:3.0.7\r\nloading:0\r\nrole:master\r\nmaster_link_status:up\r\n"
		}
		nc.send(nil, Action{Reply: refmodel.Bulk([]byte(body))})
		return
	case "cluster":
		if len(args) >= 2 && refmodel.ASCIILower(string(args[1])) == "nodes" {
			nc.event("cluster")
			c.mu.Lock()
			f := c.topoText
			pg := c.probeGate
			c.mu.Unlock()
			var rep []byte
			if f != nil {
				rep = f(nc.node.Index)
			} else {
				rep = []byte("-ERR This instance has cluster support disabled\r\n")
			}
			a := Action{Reply: rep}
			if pg != nil {
				a.Gate = pg()
			}
			nc.send(nil, a)
			return
		}
	}

	req := &Request{Node: nc.node.Index, Conn: nc.id, Raw: raw, Args: args, Name: name, Time: time.Now(),
		Asking: wasAsking, ReadOnly: nc.ro, Authed: nc.authed, NthData: nc.nData}
	nc.nData++
	c.mu.Lock()
	c.seq++
	req.Seq = c.seq
	c.log = append(c.log, req)
	if ci := c.conns[nc.id]; ci != nil {
		ci.Data++
		if len(ci.Events) < 4096 {
			ci.Events = append(ci.Events, "data:"+name)
		}
	}
	h := c.handler
	c.mu.Unlock()
	nc.send(req, h(req))
}

// EchoHandler is the default behaviour: every reply embeds the key(s) of the request.
func EchoHandler(req *Request) Action { return Action{Reply: EchoReply(req)} }

// EchoValue is the value the echo behaviour returns for key under command name.
func EchoValue(name, key string) []byte { return []byte("r|" + name + "|" + key) }

// EchoReply computes the echo reply of a request.
func EchoReply(req *Request) []byte {
	switch req.Name {
	case "mget":
		items := make([][]byte, 0, len(req.Args)-1)
		for _, k := range req.Args[1:] {
			items = append(items, refmodel.Bulk(EchoValue("mget", string(k))))
		}
		return refmodel.Array(items...)
	case "del":
		return refmodel.Int(int64(len(req.Args) - 1))
	case "mset":
		return []byte("+OK\r\n")
	}
	return refmodel.Bulk(EchoValue(req.Name, req.Key(1)))
}

// FindByKey returns the logged requests having key among their arguments (position >= 1).
func FindByKey(log []*Request, key string) []*Request {
	var out []*Request
	kb := []byte(key)
	for _, r := range log {
		for _, a := range r.Args[1:] {
			if bytes.Equal(a, kb) {
				out = append(out, r)
				break
			}
		}
	}
	return out
}

// PrependLog puts earlier log entries back in front of the current log (used by checks that run several
// batches and judge the whole log).
func (c *Cluster) PrependLog(old []*Request) {
	c.mu.Lock()
	c.log = append(append([]*Request(nil), old...), c.log...)
	c.mu.Unlock()
}
