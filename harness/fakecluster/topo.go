package fakecluster

import (
	"fmt"
	"sort"
	"strings"

	"verifharness/refmodel"
)

// TNode is one line of CLUSTER NODES.
type TNode struct {
	ID       string   `json:"id"`
	Node     int      `json:"node"`            // index of the fake node whose address is advertised (-1: use Addr)
	Addr     string   `json:"addr,omitempty"`  // explicit address when Node < 0
	Master   bool     `json:"master"`          // role flag
	MasterID string   `json:"master_id"`       // "-" for masters
	Flags    []string `json:"flags,omitempty"` // extra flags: fail, fail?, handshake, noaddr, nofailover
	LinkDown bool     `json:"link_down"`       // link-state column "disconnected"
	Slots    [][2]int `json:"slots,omitempty"` // inclusive ranges (masters)
	Marks    []string `json:"marks,omitempty"` // migration markers like [93-<-id]
	Short    bool     `json:"short,omitempty"` // render with fewer than 8 columns
}

// Topo is a cluster description that is rendered as CLUSTER NODES text and from which the expected
// routing is derived independently.
type Topo struct {
	Nodes    []TNode `json:"nodes"`
	AddrForm int     `json:"addr_form"` // 3: ip:port   4: ip:port@cport   7: ip:port@cport,hostname
	Rotate   int     `json:"rotate,omitempty"`  // the lines are rendered starting at this index (wrapping around)
	Reverse  bool    `json:"reverse,omitempty"` // ... and in reverse order: replicas may precede their masters
}

// Usable reports whether the property text allows the proxy to use the node.
func (n *TNode) Usable() bool {
	if n.LinkDown || n.Short {
		return false
	}
	for _, f := range n.Flags {
		switch f {
		case "fail", "handshake", "noaddr":
			return false
		}
	}
	return true
}

func (t *Topo) addrOf(c *Cluster, n *TNode) string {
	if n.Node >= 0 && n.Node < len(c.Nodes) {
		return c.Nodes[n.Node].Addr
	}
	return n.Addr
}

// Render produces the text of CLUSTER NODES as seen by fake node `viewer`.
func (t *Topo) Render(c *Cluster, viewer int) string {
	var b strings.Builder
	for k := range t.Nodes {
		i := k
		if len(t.Nodes) > 0 {
			i = (k + t.Rotate%len(t.Nodes) + len(t.Nodes)) % len(t.Nodes)
			if t.Reverse {
				i = len(t.Nodes) - 1 - i
			}
		}
		n := &t.Nodes[i]
		addr := t.addrOf(c, n)
		if n.Short {
			fmt.Fprintf(&b, "%s %s master\n", n.ID, addr)
			continue
		}
		port := 0
		if i := strings.LastIndexByte(addr, ':'); i >= 0 {
			fmt.Sscanf(addr[i+1:], "%d", &port)
		}
		switch t.AddrForm {
		case 4:
			addr = fmt.Sprintf("%s@%d", addr, port+10000)
		case 7:
			addr = fmt.Sprintf("%s@%d,host-%d.example", addr, port+10000, i)
		}
		var flags []string
		if n.Node == viewer {
			flags = append(flags, "myself")
		}
		if n.Master {
			flags = append(flags, "master")
		} else {
			flags = append(flags, "slave")
		}
		flags = append(flags, n.Flags...)
		mid := n.MasterID
		if n.Master || mid == "" {
			mid = "-"
		}
		link := "connected"
		if n.LinkDown {
			link = "disconnected"
		}
		fmt.Fprintf(&b, "%s %s %s %s 0 1426238316232 %d %s", n.ID, addr, strings.Join(flags, ","), mid, i+1, link)
		for _, r := range n.Slots {
			if r[0] == r[1] {
				fmt.Fprintf(&b, " %d", r[0])
			} else {
				fmt.Fprintf(&b, " %d-%d", r[0], r[1])
			}
		}
		for _, m := range n.Marks {
			b.WriteString(" " + m)
		}
		b.WriteString("\n")
	}
	return b.String()
}

// Reply renders the RESP bulk reply for viewer.
func (t *Topo) Reply(c *Cluster, viewer int) []byte {
	return refmodel.Bulk([]byte(t.Render(c, viewer)))
}

// Install makes every node of c answer CLUSTER NODES with this topology and sets INFO roles.
func (t *Topo) Install(c *Cluster) {
	cp := t.Clone()
	c.SetTopology(func(viewer int) []byte { return cp.Reply(c, viewer) })
}

// Clone deep-copies the topology.
func (t *Topo) Clone() *Topo {
	out := &Topo{AddrForm: t.AddrForm, Rotate: t.Rotate, Reverse: t.Reverse, Nodes: make([]TNode, len(t.Nodes))}
	for i, n := range t.Nodes {
		n.Flags = append([]string(nil), n.Flags...)
		n.Slots = append([][2]int(nil), n.Slots...)
		n.Marks = append([]string(nil), n.Marks...)
		out.Nodes[i] = n
	}
	return out
}

// SlotOwner is the expected routing for one slot.
type SlotOwner struct {
	Master   int   // fake node index of the master, -1 = unclaimed
	Replicas []int // fake node indexes of the usable replicas
}

// UsableCount returns the number of lines the proxy may use.
func (t *Topo) UsableCount() int {
	n := 0
	for i := range t.Nodes {
		if t.Nodes[i].Usable() {
			n++
		}
	}
	return n
}

// Expected derives slot -> replica set from the description, following the property text:
// each slot is served by the usable master that claims it together with that master's usable replicas.
// excluded lists fake nodes that must not be used for replica reads although their line is usable
// (newly discovered replicas reporting loading / broken master link).
func (t *Topo) Expected(excluded map[int]bool) []SlotOwner {
	out := make([]SlotOwner, 16384)
	for i := range out {
		out[i].Master = -1
	}
	for i := range t.Nodes {
		m := &t.Nodes[i]
		if !m.Master || !m.Usable() {
			continue
		}
		var reps []int
		for j := range t.Nodes {
			r := &t.Nodes[j]
			if r.Master || !r.Usable() || r.MasterID != m.ID || excluded[r.Node] {
				continue
			}
			reps = append(reps, r.Node)
		}
		sort.Ints(reps)
		for _, rg := range m.Slots {
			for s := rg[0]; s <= rg[1] && s < 16384; s++ {
				if s >= 0 {
					out[s] = SlotOwner{Master: m.Node, Replicas: reps}
				}
			}
		}
	}
	return out
}

// EvenTopo builds masters with evenly divided slots and replicasPer replicas each, using fake nodes
// 0..masters*(1+replicasPer)-1: masters first, then replicas (replica j of master i is node masters+i*replicasPer+j).
func EvenTopo(c *Cluster, masters, replicasPer int) *Topo {
	t := &Topo{AddrForm: 4}
	per := 16384 / masters
	for i := 0; i < masters; i++ {
		end := (i+1)*per - 1
		if i == masters-1 {
			end = 16383
		}
		t.Nodes = append(t.Nodes, TNode{ID: c.Nodes[i].ID, Node: i, Master: true, Slots: [][2]int{{i * per, end}}})
	}
	for i := 0; i < masters; i++ {
		for j := 0; j < replicasPer; j++ {
			idx := masters + i*replicasPer + j
			t.Nodes = append(t.Nodes, TNode{ID: c.Nodes[idx].ID, Node: idx, Master: false, MasterID: c.Nodes[i].ID})
		}
	}
	return t
}

// SetInfoFromTopo gives every fake node a healthy INFO matching its role in t.
func (t *Topo) SetInfoFromTopo(c *Cluster) {
	for i := range t.Nodes {
		n := &t.Nodes[i]
		if n.Node >= 0 && n.Node < len(c.Nodes) {
			c.SetInfo(n.Node, false, true, !n.Master)
		}
	}
}
