// Package sut builds the configuration for, starts, watches and stops the proxy under test as a subprocess.
package sut

import (
	"bytes"
	"errors"
	"fmt"
	"net"
	"os"
	"os/exec"
	"path/filepath"
	"strings"
	"sync"
	"syscall"
	"time"
)

// Config is the proxy configuration of one run.
type Config struct {
	Servers      []string `json:"servers"` // seed addresses
	Password     string   `json:"password,omitempty"`
	SlowlogMs    int      `json:"slowlog_ms,omitempty"` // slowlog_slower_than; 0 = 1 ms (on: every delayed reply takes the slow-log path), negative = off
	DisableSlave bool     `json:"disable_slave,omitempty"`
	TimeoutMs    int      `json:"timeout_ms,omitempty"`
	MaxLen       int      `json:"max_len,omitempty"` // msg_max_length_limit (0 = default 6 MiB)
	ServerConns  int      `json:"server_conns,omitempty"`
	Preconnect   bool     `json:"preconnect,omitempty"`
	RetryMs      int      `json:"retry_ms,omitempty"`

	WhitelistEnable bool     `json:"wl_enable,omitempty"`
	WhitelistIPs    []string `json:"wl_ips,omitempty"`

	// small-buffer wrapper (uses the wrapper binary when BufCap > 0 or a socket buffer is set)
	BufCap int `json:"buf_cap,omitempty"`
	SndBuf int `json:"snd_buf,omitempty"`
	RcvBuf int `json:"rcv_buf,omitempty"`
}

// Key identifies configurations that can share a proxy process.
func (c Config) Key() string {
	return fmt.Sprintf("%v|%s|%v|%d|%d|%d|%v|%v|%v|%d|%d|%d|%d", c.Servers, c.Password, c.DisableSlave, c.TimeoutMs, c.MaxLen, c.ServerConns, c.Preconnect, c.WhitelistEnable, c.WhitelistIPs, c.BufCap, c.SndBuf, c.RcvBuf, c.SlowlogMs)
}

// Proxy is a running proxy subprocess.
type Proxy struct {
	Cfg  Config
	Port int
	Dir  string

	cmd    *exec.Cmd
	mu     sync.Mutex
	stderr bytes.Buffer
	exited chan struct{}
	err    error
}

func binPath(small bool) (string, error) {
	name := "VERIF_PROXY_BIN"
	if small {
		name = "VERIF_PROXY_SMALLBUF_BIN"
	}
	p := os.Getenv(name)
	if p == "" {
		return "", fmt.Errorf("%s not set (run through ./vcheck)", name)
	}
	if _, err := os.Stat(p); err != nil {
		return "", err
	}
	return p, nil
}

var portMu sync.Mutex
var nextPort = 0

// pickPort finds a free TCP port below the ephemeral range.
func pickPort() (int, error) {
	portMu.Lock()
	defer portMu.Unlock()
	if nextPort == 0 {
		nextPort = 12000 + (os.Getpid()*37)%18000
	}
	for i := 0; i < 4000; i++ {
		p := nextPort
		nextPort++
		if nextPort >= 32000 {
			nextPort = 12000
		}
		ln, err := net.Listen("tcp4", fmt.Sprintf("0.0.0.0:%d", p))
		if err != nil {
			continue
		}
		ln.Close()
		return p, nil
	}
	return 0, errors.New("no free port below the ephemeral range")
}

// AuthipYAML renders the whitelist file.
func AuthipYAML(enable bool, ips []string) string {
	var b strings.Builder
	fmt.Fprintf(&b, "enable: %v\n\nip_white_list:\n", enable)
	for _, ip := range ips {
		fmt.Fprintf(&b, "  - %s\n", ip)
	}
	if len(ips) == 0 {
		b.Reset()
		fmt.Fprintf(&b, "enable: %v\n\nip_white_list: []\n", enable)
	}
	return b.String()
}

// Start launches a proxy with cfg and waits until it accepts connections (not until routing is loaded).
func Start(cfg Config) (*Proxy, error) {
	small := cfg.BufCap > 0 || cfg.SndBuf > 0 || cfg.RcvBuf > 0
	bin, err := binPath(small)
	if err != nil {
		return nil, err
	}
	var lastErr error
	for attempt := 0; attempt < 5; attempt++ {
		p, err := startOnce(bin, cfg)
		if err == nil {
			return p, nil
		}
		lastErr = err
	}
	return nil, lastErr
}

// yamlString renders a scalar for the configuration file (quoted unless empty: "{tag}x" would be a YAML mapping).
func yamlString(s string) string {
	if s == "" {
		return ""
	}
	return fmt.Sprintf("%q", s)
}

func startOnce(bin string, cfg Config) (*Proxy, error) {
	port, err := pickPort()
	if err != nil {
		return nil, err
	}
	base := os.Getenv("VERIF_WORK")
	if base == "" {
		base = os.TempDir()
	}
	dir, err := os.MkdirTemp(base, "proxy-")
	if err != nil {
		return nil, err
	}
	conf := filepath.Join(dir, "conf")
	os.MkdirAll(conf, 0o755)
	sc := cfg.ServerConns
	if sc < 1 {
		sc = 1
	}
	retry := cfg.RetryMs
	if retry == 0 {
		retry = 500
	}
	slowlog := cfg.SlowlogMs
	switch {
	case slowlog == 0:
		slowlog = 1
	case slowlog < 0:
		slowlog = 0
	}
	yaml := fmt.Sprintf(`port: %d
web_port: 0
log_path: %s
log_level: ERROR
log_expire_day: 1

redis:
  servers: %s
  password: %s
  preconnect: %v
  msg_max_length_limit: %d
  slowlog_slower_than: %d
  timeout: %d
  conn_timeout: 1000
  server_retry_timeout: %d
  disable_slave: %v
  server_connections: %d
`, port, filepath.Join(dir, "log"), strings.Join(cfg.Servers, ","), yamlString(cfg.Password), cfg.Preconnect, cfg.MaxLen, slowlog, cfg.TimeoutMs, retry, cfg.DisableSlave, sc)
	if err := os.WriteFile(filepath.Join(conf, "rc.yaml"), []byte(yaml), 0o644); err != nil {
		return nil, err
	}
	if err := os.WriteFile(filepath.Join(conf, "authip.yaml"), []byte(AuthipYAML(cfg.WhitelistEnable, cfg.WhitelistIPs)), 0o644); err != nil {
		return nil, err
	}
	cmd := exec.Command(bin, "-p", conf)
	cmd.Dir = dir
	cmd.Env = append(os.Environ(),
		fmt.Sprintf("VERIF_BUFCAP=%d", cfg.BufCap), fmt.Sprintf("VERIF_SNDBUF=%d", cfg.SndBuf), fmt.Sprintf("VERIF_RCVBUF=%d", cfg.RcvBuf),
		"GOMAXPROCS=2", "GOTRACEBACK=single")
	cmd.SysProcAttr = &syscall.SysProcAttr{Pdeathsig: syscall.SIGKILL}
	p := &Proxy{Cfg: cfg, Port: port, Dir: dir, cmd: cmd, exited: make(chan struct{})}
	cmd.Stdout = nil
	cmd.Stderr = &lockedWriter{p: p}
	if err := cmd.Start(); err != nil {
		os.RemoveAll(dir)
		return nil, err
	}
	go func() {
		p.err = cmd.Wait()
		close(p.exited)
	}()
	// wait for the listener
	deadline := time.Now().Add(8 * time.Second)
	for time.Now().Before(deadline) {
		select {
		case <-p.exited:
			msg := p.Stderr() + p.logTail()
			p.cleanup()
			return nil, fmt.Errorf("proxy exited during start: %v: %s", p.err, tail(msg, 900))
		default:
		}
		c, err := net.DialTimeout("tcp4", p.Addr(), 200*time.Millisecond)
		if err == nil {
			c.Close()
			return p, nil
		}
		time.Sleep(20 * time.Millisecond)
	}
	p.Stop()
	return nil, errors.New("proxy did not start listening within 8s")
}

type lockedWriter struct{ p *Proxy }

func (w *lockedWriter) Write(b []byte) (int, error) {
	w.p.mu.Lock()
	defer w.p.mu.Unlock()
	if w.p.stderr.Len() < 1<<20 {
		w.p.stderr.Write(b)
	}
	return len(b), nil
}

func tail(s string, n int) string {
	if len(s) > n {
		return s[len(s)-n:]
	}
	return s
}

// Addr is the proxy's client address.
func (p *Proxy) Addr() string { return fmt.Sprintf("127.0.0.1:%d", p.Port) }

// Alive reports whether the process is still running.
func (p *Proxy) Alive() bool {
	select {
	case <-p.exited:
		return false
	default:
		return true
	}
}

// Stderr returns what the process wrote to stderr so far.
func (p *Proxy) Stderr() string {
	p.mu.Lock()
	defer p.mu.Unlock()
	return p.stderr.String()
}

// ExitInfo describes how the process ended (for reports).
func (p *Proxy) ExitInfo() string {
	if p.Alive() {
		return "alive"
	}
	return fmt.Sprintf("exited: %v; stderr tail: %s", p.err, tail(p.Stderr(), 1500))
}

// logTail returns the end of the proxy's log files.
func (p *Proxy) logTail() string {
	var out string
	files, _ := filepath.Glob(filepath.Join(p.Dir, "log*", "*"))
	more, _ := filepath.Glob(filepath.Join(p.Dir, "log*"))
	for _, f := range append(files, more...) {
		if b, err := os.ReadFile(f); err == nil {
			out += " | " + filepath.Base(f) + ": " + tail(string(b), 500)
		}
	}
	return out
}

// ConfDir is the directory holding rc.yaml and authip.yaml.
func (p *Proxy) ConfDir() string { return filepath.Join(p.Dir, "conf") }

// Stop kills the process and removes its directory.
func (p *Proxy) Stop() {
	if p == nil {
		return
	}
	if p.Alive() {
		p.cmd.Process.Kill()
		select {
		case <-p.exited:
		case <-time.After(5 * time.Second):
		}
	}
	p.cleanup()
}

func (p *Proxy) cleanup() {
	if os.Getenv("VERIF_KEEP_PROXY_DIR") != "" {
		return
	}
	os.RemoveAll(p.Dir)
}

// RunQueueWait is the total time the proxy's threads have spent runnable but waiting for a CPU (from
// /proc/<pid>/task/*/schedstat); the difference over an interval tells machine overload from proxy behaviour.
func (p *Proxy) RunQueueWait() time.Duration {
	if p.cmd == nil || p.cmd.Process == nil {
		return 0
	}
	files, _ := filepath.Glob(fmt.Sprintf("/proc/%d/task/*/schedstat", p.cmd.Process.Pid))
	var ns int64
	for _, f := range files {
		b, err := os.ReadFile(f)
		if err != nil {
			continue
		}
		var run, wait int64
		fmt.Sscan(string(b), &run, &wait)
		ns += wait
	}
	return time.Duration(ns)
}
