// Package rclient is a raw RESP client: it writes given bytes in given chunks and reads replies with the
// strict reply scanner of the reference model, timestamping each.
package rclient

import (
	"errors"
	"fmt"
	"io"
	"net"
	"sync"
	"time"

	"verifharness/refmodel"
)

// Reply is one reply read from the proxy.
type Reply struct {
	Raw  []byte
	Time time.Time
}

// Client is one connection to the proxy.
type Client struct {
	Conn net.Conn

	mu      sync.Mutex
	cond    *sync.Cond
	replies []Reply
	pending []byte // bytes after the last complete reply
	eof     bool
	eofAt   time.Time
	readErr error
	badResp error // set when the byte stream stops being well-formed RESP
	total   int
}

// Dial connects to addr; local may name a source IP ("" = default).
func Dial(addr, local string) (*Client, error) {
	d := net.Dialer{Timeout: 3 * time.Second}
	if local != "" {
		d.LocalAddr = &net.TCPAddr{IP: net.ParseIP(local)}
	}
	c, err := d.Dial("tcp4", addr)
	if err != nil {
		return nil, err
	}
	if tc, ok := c.(*net.TCPConn); ok {
		tc.SetNoDelay(true)
	}
	cl := &Client{Conn: c}
	cl.cond = sync.NewCond(&cl.mu)
	go cl.readLoop()
	return cl, nil
}

// DialNoRead connects without starting the reader (for slow-reader experiments); call StartReading later.
func DialNoRead(addr string, rcvbuf int) (*Client, error) {
	d := net.Dialer{Timeout: 3 * time.Second}
	c, err := d.Dial("tcp4", addr)
	if err != nil {
		return nil, err
	}
	if tc, ok := c.(*net.TCPConn); ok {
		tc.SetNoDelay(true)
		if rcvbuf > 0 {
			tc.SetReadBuffer(rcvbuf)
		}
	}
	cl := &Client{Conn: c}
	cl.cond = sync.NewCond(&cl.mu)
	return cl, nil
}

// StartReading starts the reader goroutine of a DialNoRead client.
func (c *Client) StartReading() { go c.readLoop() }

func (c *Client) readLoop() {
	buf := make([]byte, 256*1024)
	for {
		n, err := c.Conn.Read(buf)
		if c.feed(buf[:n], err) {
			return
		}
	}
}

// feed takes what one read returned; it reports whether the stream ended.
func (c *Client) feed(b []byte, err error) bool {
	now := time.Now()
	c.mu.Lock()
	defer c.mu.Unlock()
	defer c.cond.Broadcast()
	if n := len(b); n > 0 {
		c.total += n
		c.pending = append(c.pending, b...)
		for len(c.pending) > 0 && c.badResp == nil {
			m, perr := refmodel.ScanReply(c.pending)
			if perr == refmodel.ErrNeedMore {
				break
			}
			if perr != nil {
				c.badResp = perr
				break
			}
			c.replies = append(c.replies, Reply{Raw: append([]byte(nil), c.pending[:m]...), Time: now})
			c.pending = c.pending[m:]
		}
		if len(c.pending) == 0 {
			c.pending = nil
		}
	}
	if err != nil {
		c.eof = true
		c.eofAt = now
		if err != io.EOF {
			c.readErr = err
		}
		return true
	}
	return false
}

// ReadExactly (for a DialNoRead client whose reader has not been started) reads n more bytes from the
// connection, or fewer if nothing arrives for idle; it returns how many it read.
func (c *Client) ReadExactly(n int, idle time.Duration) int {
	buf := make([]byte, 64*1024)
	got := 0
	for got < n {
		want := n - got
		if want > len(buf) {
			want = len(buf)
		}
		c.Conn.SetReadDeadline(time.Now().Add(idle))
		k, err := c.Conn.Read(buf[:want])
		got += k
		if ne, ok := err.(net.Error); ok && ne.Timeout() {
			c.feed(buf[:k], nil)
			break
		}
		if c.feed(buf[:k], err) {
			break
		}
	}
	c.Conn.SetReadDeadline(time.Time{})
	return got
}

// Write sends b in one write call.
func (c *Client) Write(b []byte) error {
	c.Conn.SetWriteDeadline(time.Now().Add(20 * time.Second))
	_, err := c.Conn.Write(b)
	return err
}

// WriteChunks sends b cut at the given chunk sizes (the remainder goes last), pausing between chunks.
func (c *Client) WriteChunks(b []byte, sizes []int, pause time.Duration) error {
	for _, s := range sizes {
		if len(b) == 0 {
			break
		}
		if s <= 0 {
			continue
		}
		if s > len(b) {
			s = len(b)
		}
		if err := c.Write(b[:s]); err != nil {
			return err
		}
		b = b[s:]
		if pause > 0 && len(b) > 0 {
			time.Sleep(pause)
		}
	}
	if len(b) > 0 {
		return c.Write(b)
	}
	return nil
}

// State is a snapshot of what has been received.
type State struct {
	Replies []Reply
	Pending []byte
	EOF     bool
	BadResp error
	ReadErr error
	Total   int
}

// Snapshot returns the current state.
func (c *Client) Snapshot() State {
	c.mu.Lock()
	defer c.mu.Unlock()
	return State{Replies: append([]Reply(nil), c.replies...), Pending: append([]byte(nil), c.pending...), EOF: c.eof, BadResp: c.badResp, ReadErr: c.readErr, Total: c.total}
}

// WaitReplies waits until at least n replies arrived, the connection ended, the stream went bad, or the timeout.
// It returns true if n replies are there.
func (c *Client) WaitReplies(n int, timeout time.Duration) bool {
	deadline := time.Now().Add(timeout)
	timer := time.AfterFunc(timeout, func() { c.mu.Lock(); c.cond.Broadcast(); c.mu.Unlock() })
	defer timer.Stop()
	c.mu.Lock()
	defer c.mu.Unlock()
	for len(c.replies) < n && !c.eof && c.badResp == nil && time.Now().Before(deadline) {
		c.cond.Wait()
	}
	return len(c.replies) >= n
}

// WaitRepliesProgress waits for n replies as long as bytes keep arriving: it gives up only when nothing at
// all arrived for idle, or after max. A peer with a tiny receive window is served at the pace of TCP's
// window probes, which is slow but is not a stall.
func (c *Client) WaitRepliesProgress(n int, idle, max time.Duration) bool {
	end := time.Now().Add(max)
	for {
		c.mu.Lock()
		before := c.total
		c.mu.Unlock()
		if c.WaitReplies(n, idle) {
			return true
		}
		c.mu.Lock()
		moved := c.total != before
		done := c.eof || c.badResp != nil
		c.mu.Unlock()
		if done || !moved || time.Now().After(end) {
			return false
		}
	}
}

// WaitEOF waits until the peer closed the connection.
func (c *Client) WaitEOF(timeout time.Duration) bool {
	deadline := time.Now().Add(timeout)
	timer := time.AfterFunc(timeout, func() { c.mu.Lock(); c.cond.Broadcast(); c.mu.Unlock() })
	defer timer.Stop()
	c.mu.Lock()
	defer c.mu.Unlock()
	for !c.eof && time.Now().Before(deadline) {
		c.cond.Wait()
	}
	return c.eof
}

// Close closes the connection.
func (c *Client) Close() { c.Conn.Close() }

// CloseRST closes the connection abortively.
func (c *Client) CloseRST() {
	if tc, ok := c.Conn.(*net.TCPConn); ok {
		tc.SetLinger(0)
	}
	c.Conn.Close()
}

// RoundTrip sends one command on a fresh connection and returns the raw reply.
func RoundTrip(addr string, timeout time.Duration, args ...string) ([]byte, error) {
	c, err := Dial(addr, "")
	if err != nil {
		return nil, err
	}
	defer c.Close()
	if err := c.Write(refmodel.EncodeCmdS(args...)); err != nil {
		return nil, err
	}
	if !c.WaitReplies(1, timeout) {
		st := c.Snapshot()
		if st.EOF {
			return nil, errors.New("connection closed before a reply")
		}
		if st.BadResp != nil {
			return nil, fmt.Errorf("malformed reply: %v", st.BadResp)
		}
		return nil, errors.New("timeout waiting for the reply")
	}
	return c.Snapshot().Replies[0].Raw, nil
}
