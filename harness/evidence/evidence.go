// Package evidence records, per property, what the generated cases of one shard process looked like:
// how many were evaluated, which were non-trivial by the check's stated rule (by hash, so the driver can
// count distinct ones over all shards), a class histogram and written-out samples.
package evidence

import (
	"encoding/json"
	"fmt"
	"hash/fnv"
	"os"
	"path/filepath"
	"sort"
	"sync"
)

// Recorder collects the cases of one property in this process.
type Recorder struct {
	Property string

	mu        sync.Mutex
	evals     int
	nt        map[uint64]struct{}
	ntEvals   int
	classes   map[string]int
	first     json.RawMessage
	largest   json.RawMessage
	last      json.RawMessage
	middle    json.RawMessage
	frozen    bool
	known     []KnownHit
	extra     map[string]int
	exhaust   bool
	notes     []string
	sampleCap int
}

// KnownHit is a discrepancy matching an open entry of known_findings.json.
type KnownHit struct {
	Sig string `json:"sig"`
	Msg string `json:"msg"`
}

var (
	regMu sync.Mutex
	recs  = map[string]*Recorder{}
)

// For returns the recorder of a property (one per process).
func For(prop string) *Recorder {
	regMu.Lock()
	defer regMu.Unlock()
	r := recs[prop]
	if r == nil {
		r = &Recorder{Property: prop, nt: map[uint64]struct{}{}, classes: map[string]int{}, extra: map[string]int{}, sampleCap: 6000}
		recs[prop] = r
	}
	return r
}

// Freeze stops counting (called when a failure was seen: what follows is shrinking, not generation).
func (r *Recorder) Freeze() { r.mu.Lock(); r.frozen = true; r.mu.Unlock() }

// Frozen reports whether counting has stopped.
func (r *Recorder) Frozen() bool { r.mu.Lock(); defer r.mu.Unlock(); return r.frozen }

// Case records one generated case. c must be JSON-serialisable; its JSON is the identity of the case.
func (r *Recorder) Case(c interface{}, nontrivial bool, classes ...string) {
	r.mu.Lock()
	defer r.mu.Unlock()
	if r.frozen {
		return
	}
	r.evals++
	for _, cl := range classes {
		r.classes[cl]++
	}
	if !nontrivial {
		return
	}
	r.ntEvals++
	b, err := json.Marshal(c)
	if err != nil {
		b = []byte(fmt.Sprintf("%q", fmt.Sprintf("%+v", c)))
	}
	h := fnv.New64a()
	h.Write(b)
	r.nt[h.Sum64()] = struct{}{}
	keep := b
	if len(keep) > r.sampleCap {
		keep, _ = json.Marshal(map[string]interface{}{"truncated_json_prefix": string(b[:r.sampleCap]), "full_length": len(b)})
	}
	if r.first == nil {
		r.first = keep
	}
	if r.ntEvals == 64 || (r.middle == nil && r.ntEvals == 8) {
		r.middle = keep
	}
	if len(b) > lenOrig(r.largest) {
		r.largest = keep
	}
	r.last = keep
}

func lenOrig(m json.RawMessage) int { return len(m) }

// CaseKey records a case identified by a cheap key instead of its JSON (for million-case in-process checks).
// sample is only marshalled occasionally.
func (r *Recorder) CaseKey(key uint64, nontrivial bool, sample func() interface{}, classes ...string) {
	r.mu.Lock()
	defer r.mu.Unlock()
	if r.frozen {
		return
	}
	r.evals++
	for _, cl := range classes {
		r.classes[cl]++
	}
	if !nontrivial {
		return
	}
	r.ntEvals++
	if _, ok := r.nt[key]; !ok && len(r.nt) < 4_000_000 {
		r.nt[key] = struct{}{}
	}
	if r.first == nil || r.ntEvals == 1000 || r.ntEvals%250000 == 0 {
		b, _ := json.Marshal(sample())
		if r.first == nil {
			r.first = b
		} else if r.middle == nil {
			r.middle = b
		} else {
			r.last = b
		}
	}
}

// Add increments a named extra counter (restarts, excluded_known, ...).
func (r *Recorder) Add(name string, n int) { r.mu.Lock(); r.extra[name] += n; r.mu.Unlock() }

// Known records a discrepancy that matches an open known finding.
func (r *Recorder) Known(sig, msg string) {
	r.mu.Lock()
	if len(r.known) < 50 {
		r.known = append(r.known, KnownHit{sig, msg})
	}
	r.mu.Unlock()
}

// Exhaustive marks that this shard enumerated its finite space completely.
func (r *Recorder) Exhaustive(v bool) { r.mu.Lock(); r.exhaust = v; r.mu.Unlock() }

// Note attaches a free-text note.
func (r *Recorder) Note(s string) { r.mu.Lock(); r.notes = append(r.notes, s); r.mu.Unlock() }

type shardFile struct {
	Property    string            `json:"property"`
	Shard       string            `json:"shard"`
	Evaluations int               `json:"evaluations"`
	NTEvals     int               `json:"nt_evaluations"`
	NTHashes    []string          `json:"nt_hashes"`
	Classes     map[string]int    `json:"classes"`
	Samples     []json.RawMessage `json:"samples"`
	Extra       map[string]int    `json:"extra"`
	Known       []KnownHit        `json:"known"`
	Exhaustive  bool              `json:"exhaustive"`
	Notes       []string          `json:"notes"`
}

// FlushAll writes one file per property into $VERIF_OUT (no-op when unset).
func FlushAll() {
	dir := os.Getenv("VERIF_OUT")
	if dir == "" {
		return
	}
	shard := os.Getenv("VERIF_SHARD")
	if shard == "" {
		shard = "0"
	}
	regMu.Lock()
	defer regMu.Unlock()
	for _, r := range recs {
		r.mu.Lock()
		sf := shardFile{Property: r.Property, Shard: shard, Evaluations: r.evals, NTEvals: r.ntEvals, Classes: r.classes, Extra: r.extra, Known: r.known, Exhaustive: r.exhaust, Notes: r.notes}
		for h := range r.nt {
			sf.NTHashes = append(sf.NTHashes, fmt.Sprintf("%016x", h))
		}
		sort.Strings(sf.NTHashes)
		seen := map[string]bool{}
		for _, s := range []json.RawMessage{r.first, r.middle, r.largest, r.last} {
			if s != nil && !seen[string(s)] {
				seen[string(s)] = true
				sf.Samples = append(sf.Samples, s)
			}
		}
		r.mu.Unlock()
		b, _ := json.Marshal(sf)
		os.MkdirAll(dir, 0o755)
		os.WriteFile(filepath.Join(dir, fmt.Sprintf("%s-shard-%s-%s.json", r.Property, os.Getenv("VERIF_STEP"), shard)), b, 0o644)
	}
}
