#!/usr/bin/env python3
"""Regenerates MANIFEST.json from vcheck_props.py (single source of truth for the registered checks)."""
import json, os, sys
sys.path.insert(0, os.path.dirname(os.path.abspath(__file__)))
from vcheck_props import PROPS, MANIFEST_TEXT, NOT_APPLICABLE

BASELINE = "cd /repo && go test -json -vet=off -count=1 -timeout 25m ./..."
checks = []
for pid in sorted(PROPS):
    p = PROPS[pid]
    mt = MANIFEST_TEXT[pid]
    checks.append({
        "property_id": pid,
        "quick_cmd": "./vcheck %s quick" % pid,
        "thorough_cmd": "./vcheck %s thorough" % pid,
        "evidence_file": "/verif/evidence/%s.json" % pid,
        "replay_cmd_template": "./vcheck replay %s {path}" % pid,
        "engine": mt["engine"],
        "level_claimed": {"category": p["level"], "text": mt["level_text"], "design_ref": "DESIGN.md section 5, " + pid},
        "level_note": mt["level_note"],
        "technique": mt["technique"],
    })
m = {
    "version": 1,
    "setup_cmd": "./vcheck setup",
    "hooks": {
        "guard": "verif",
        "enable": "the harness test binary is built with `go test -c -tags verif ./checks` (vcheck does this); the tag compiles /repo/core/verif_hooks.go, which exposes the topology refresh step (updateClusterNodes) to the in-process half of C14. The proxy binaries under test (stock main and the small-buffer wrapper main under /verif/harness/cmd) are built WITHOUT the tag.",
        "baseline_off_cmd": BASELINE,
        "source_commits": ["dbde927"],
        "add_only": True,
    },
    "engines": [
        {"name": "E1", "path": "harness/checks + harness/fakecluster + harness/sut + harness/rclient", "serves_properties": sorted(k for k in PROPS if MANIFEST_TEXT[k]["engine"].startswith("E1")),
         "kind_free_text": "end-to-end property-based testing (pgregory.net/rapid): the real proxy binary as a subprocess between a controllable fake Redis Cluster and raw RESP clients, judged by independent reference models"},
        {"name": "E2", "path": "harness/checks (in-process)", "serves_properties": sorted(k for k in PROPS if MANIFEST_TEXT[k]["engine"].startswith("E2")),
         "kind_free_text": "in-process property-based testing and native Go fuzzing of exported pure components against reference models"},
    ],
    "checks": checks,
    "not_applicable": [{"property_id": k, "reason": v} for k, v in sorted(NOT_APPLICABLE.items()) if k not in PROPS],
    "notes": "All checks are driven by ./vcheck (see DESIGN.md section 2.2): it rebuilds the proxy from /repo's working tree, runs shard processes of the harness test binary with seeds derived from VERIF_SEED, merges their evidence and classifies failures (exit 0 held / 1 VIOLATION / 2 inconclusive: build failure, overload, harness trouble).",
}
json.dump(m, open(os.path.join(os.path.dirname(os.path.abspath(__file__)), "MANIFEST.json"), "w"), indent=1)
print("MANIFEST.json: %d checks, %d not_applicable" % (len(checks), len(m["not_applicable"])))
